"""Per-property stage definitions for bin/check."""
import os

VERIF = os.path.dirname(os.path.dirname(os.path.abspath(__file__)))
SIM = os.path.join(VERIF, "sim")

SIMPLE = {"C01", "C02", "C03", "C04", "C07", "C10", "C11", "C12", "C19"}


def build_stages(pid, build, go_build, Stage, infra, repo, tier):
    if pid in SIMPLE:
        out = os.path.join(build.dir, "simrun")
        go_build(build, out, "./cmd/simrun")
        return [Stage("sim", out, pid)]
    if pid == "C17":
        import c17stages
        return c17stages.build(build, go_build, Stage, infra, repo, tier)
    infra("no check is registered for property %s" % pid)


def watchdog(pid, stage, tier):
    return 3600 if tier == "quick" else 6 * 3600


def det_slice(pid, stage):
    if pid == "C17":
        return {"L1": 120, "L2": 24, "L3": 16}.get(stage, 16)
    return {"C19": 300, "C04": 2000, "C01": 100, "C02": 100, "C03": 100, "C12": 200}.get(pid, 300)

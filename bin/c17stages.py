"""Stages of the C17 check: L1 (API-call interleavings, plain build), L2 (statement-level
interleavings on an instrumented scratch copy built with -race), L3 (instruction-level
interleavings inside the assembly under a ptrace scheduler)."""
import os, shutil, subprocess

VERIF = os.path.dirname(os.path.dirname(os.path.abspath(__file__)))
SIM = os.path.join(VERIF, "sim")


def build(build, go_build, Stage, infra, repo, tier):
    stages = []
    only = os.environ.get("VERIF_C17_STAGES", "L1,L2,L3").split(",")
    if "L1" in only:
        out = os.path.join(build.dir, "simrun")
        go_build(build, out, "./cmd/simrun")
        stages.append(Stage("L1", out, "C17"))
    if "L2" in only:
        stages.append(build_l2(build, go_build, Stage, infra, repo))
    if "L3" in only:
        out = os.path.join(build.dir, "simrun")
        if not os.path.exists(out):
            go_build(build, out, "./cmd/simrun")
        if ptrace_works(out):
            stages.append(Stage("L3", out, "C17L3"))
        else:
            print("NOTE: ptrace is not usable here; L3 (instruction-level interleavings) skipped, verdict rests on L1+L2")
    return stages


def ptrace_works(binary):
    try:
        p = subprocess.run([binary, "-prop", "C17L3", "-from", "0", "-to", "1"], capture_output=True, text=True, timeout=120)
        if p.returncode != 0:
            return False
        import json
        d = json.loads(p.stdout)
        return d.get("probes", {}).get("inconclusive", 0) == 0
    except Exception:
        return False


def build_l2(build, go_build, Stage, infra, repo):
    env = dict(os.environ, GOFLAGS="-mod=mod", GOPROXY="off", GOSUMDB="off", GOTOOLCHAIN="local")
    yi = os.path.join(build.dir, "yieldinst")
    p = subprocess.run(["go", "build", "-o", yi, "./cmd/yieldinst"], cwd=SIM, env=env, capture_output=True, text=True)
    if p.returncode != 0:
        infra("building yieldinst failed:\n" + p.stderr)
    inst = os.path.join(build.dir, "inst")
    note = "statement-level"
    p = subprocess.run([yi, "-src", repo, "-dst", inst, "-sites", os.path.join(build.dir, "sites.tsv")], capture_output=True, text=True)
    if p.returncode != 0:
        infra("yieldinst failed:\n" + p.stderr)
    # the instrumented tree must compile; if statement-level insertion surprises the compiler fall back to
    # function-entry-only instrumentation (never a verdict)
    q = subprocess.run(["go", "build", "./..."], cwd=inst, env=env, capture_output=True, text=True)
    if q.returncode != 0:
        # fall back step by step: keep statement-level yields but leave blocking calls alone (a type with
        # Lock but no TryLock), then function-entry yields only
        err = q.stderr
        for flags, what in ((["-nolocks"], "statement-level, blocking calls not rewritten"), (["-entryonly"], "function-entry only"), (["-entryonly", "-nolocks"], "function-entry only, blocking calls not rewritten")):
            shutil.rmtree(inst)
            p = subprocess.run([yi, "-src", repo, "-dst", inst, "-sites", os.path.join(build.dir, "sites.tsv")] + flags, capture_output=True, text=True)
            q2 = subprocess.run(["go", "build", "./..."], cwd=inst, env=env, capture_output=True, text=True)
            if p.returncode == 0 and q2.returncode == 0:
                note = "%s (full instrumentation did not compile: %s)" % (what, err[:300])
                break
            err += q2.stderr
        else:
            infra("instrumented tree does not build, even with function-entry yields only:\n" + err)
    modfile = os.path.join(build.dir, "go.l2.mod")
    with open(os.path.join(SIM, "go.mod")) as f:
        txt = f.read().replace("=> /repo", "=> " + inst)
    with open(modfile, "w") as f:
        f.write(txt)
    shutil.copy(os.path.join(SIM, "go.sum"), os.path.join(build.dir, "go.l2.sum"))
    out = os.path.join(build.dir, "simrun-l2")
    go_build(build, out, "./cmd/simrun", tags="verif verifl2", race=True, modfile=modfile)
    st = Stage("L2", out, "C17", env={"GORACE": "halt_on_error=1 exitcode=66", "VERIF_L2_NOTE": note})
    return st

// Package mem is the guard-page arena (seam S4): the "disk" of a library is the memory
// its caller hands in. Every workload buffer can be placed flush against an
// inaccessible page (before or after) or in the interior of a canary-filled region;
// placement is a seeded, replayable allocator decision.
package mem

import (
	"fmt"
	"syscall"
	"unsafe"
)

const page = 4096

type region struct {
	base  []byte // whole mapping: guard | data pages | guard
	pages int    // data pages
}

type Alloc struct {
	Name        string
	reg         *region
	off, length int // [off, off+length) inside the data area is the caller's (cap bytes)
}

type Arena struct {
	free   map[int][]*region
	live   []*Alloc
	Mapped int
}

func New() *Arena { return &Arena{free: map[int][]*region{}} }

func (a *Arena) getRegion(pages int) *region {
	if l := a.free[pages]; len(l) > 0 {
		r := l[len(l)-1]
		a.free[pages] = l[:len(l)-1]
		return r
	}
	total := (pages + 2) * page
	b, err := syscall.Mmap(-1, 0, total, syscall.PROT_READ|syscall.PROT_WRITE, syscall.MAP_ANON|syscall.MAP_PRIVATE)
	if err != nil {
		panic(fmt.Sprintf("arena: mmap: %v", err))
	}
	if err := syscall.Mprotect(b[:page], syscall.PROT_NONE); err != nil {
		panic(err)
	}
	if err := syscall.Mprotect(b[total-page:], syscall.PROT_NONE); err != nil {
		panic(err)
	}
	a.Mapped += total
	return &region{base: b, pages: pages}
}

func canary(i int) byte { return byte(0xC5 ^ (i * 7)) }

// Alloc returns a slice with len n and cap c placed by policy:
//
//	"tail": the end of the capacity is flush against a PROT_NONE page
//	"head": the start is the first byte after a PROT_NONE page
//	"interior": at least 64 canary bytes on both sides, start offset shifted by align (0..63)
//
// The rest of the data pages is filled with a canary pattern checked by Check.
func (a *Arena) Alloc(name string, n, c int, place string, align int) []byte {
	if c < n {
		c = n
	}
	need := c + 128 + 64
	pages := (need + page - 1) / page
	r := a.getRegion(pages)
	data := r.base[page : page+pages*page]
	var off int
	switch place {
	case "tail":
		off = len(data) - c
	case "head":
		off = 0
	default:
		off = 64 + (align & 63)
	}
	if c >= 1<<28 {
		// very large allocations: only the surroundings carry the canary pattern
		for i := 0; i < off; i++ {
			data[i] = canary(i)
		}
		for i := off + c; i < len(data); i++ {
			data[i] = canary(i)
		}
	} else {
		for i := range data {
			data[i] = canary(i)
		}
	}
	al := &Alloc{Name: name, reg: r, off: off, length: c}
	a.live = append(a.live, al)
	if c == 0 {
		// zero-capacity slice that still points into the arena (so &b[:1][0] would be a guard hit for tail)
		return data[off:off:off]
	}
	return data[off : off+n : off+c]
}

// Check verifies every canary byte outside the caller's ranges. It returns the name of
// the first damaged allocation and the offset relative to the allocation start.
func (a *Arena) Check() (ok bool, name string, rel int) {
	for _, al := range a.live {
		data := al.reg.base[page : page+al.reg.pages*page]
		for i := 0; i < al.off; i++ {
			if data[i] != canary(i) {
				return false, al.Name, i - al.off
			}
		}
		for i := al.off + al.length; i < len(data); i++ {
			if data[i] != canary(i) {
				return false, al.Name, i - al.off
			}
		}
	}
	return true, "", 0
}

// Guard reports whether addr lies in a guard page of a live allocation, and which.
func (a *Arena) Guard(addr uintptr) (hit bool, name string, side string) {
	hit, name, side, _ = a.GuardDist(addr)
	return
}

// GuardDist is Guard plus the distance in bytes from the nearest accessible byte
// (1 = the first byte of the guard page), which unlike the address is reproducible.
func (a *Arena) GuardDist(addr uintptr) (hit bool, name string, side string, dist int) {
	for _, al := range a.live {
		b := uintptr(unsafe.Pointer(&al.reg.base[0]))
		total := uintptr((al.reg.pages + 2) * page)
		switch {
		case addr >= b && addr < b+page:
			return true, al.Name, "before", int(b + page - addr)
		case addr >= b+total-page && addr < b+total:
			return true, al.Name, "after", int(addr-(b+total-page)) + 1
		}
	}
	return false, "", "", 0
}

// Reset returns all live regions to the free pool.
func (a *Arena) Reset() {
	for _, al := range a.live {
		a.free[al.reg.pages] = append(a.free[al.reg.pages], al.reg)
	}
	a.live = a.live[:0]
}

// Release unmaps every region of the arena (live and pooled). The arena is empty afterwards.
func (a *Arena) Release() {
	for _, al := range a.live {
		a.free[al.reg.pages] = append(a.free[al.reg.pages], al.reg)
	}
	a.live = a.live[:0]
	for k, l := range a.free {
		for _, r := range l {
			a.Mapped -= len(r.base)
			syscall.Munmap(r.base)
			r.base = nil
		}
		delete(a.free, k)
	}
}

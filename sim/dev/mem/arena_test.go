package mem

import (
	"runtime/debug"
	"testing"
	"unsafe"
)

var sink byte

func TestGuardAndCanary(t *testing.T) {
	a := New()
	b := a.Alloc("x", 10, 10, "tail", 0)
	if ok, _, _ := a.Check(); !ok {
		t.Fatal("fresh arena fails canary check")
	}
	func() {
		debug.SetPanicOnFault(true)
		defer func() {
			r := recover()
			ae, ok := r.(interface{ Addr() uintptr })
			if !ok {
				t.Fatalf("expected fault panic, got %v", r)
			}
			if hit, name, side := a.Guard(ae.Addr()); !hit || name != "x" || side != "after" {
				t.Fatalf("guard lookup: %v %v %v", hit, name, side)
			}
		}()
		sink = *(*byte)(unsafe.Add(unsafe.Pointer(&b[9]), 1))
	}()
}

// Package pipe is the simulated byte stream (seam S2): a reader that hands out a fixed
// payload according to a per-Read program of short reads, stalls and EOF placement.
package pipe

import "io"

// Step: N>0 deliver at most N bytes; N==0 stall (0,nil); N<0 deliver everything asked.
type Step struct {
	N int `json:"n"`
}

type Reader struct {
	data    []byte
	pos     int
	prog    []Step
	call    int
	EOFWith bool // deliver io.EOF together with the last bytes instead of on a separate call
	Fired   map[string]int
	stall   int
}

func New(data []byte, prog []Step, eofWithData bool) *Reader {
	return &Reader{data: data, prog: prog, EOFWith: eofWithData, Fired: map[string]int{}}
}

func (r *Reader) Read(p []byte) (int, error) {
	if r.pos >= len(r.data) {
		return 0, io.EOF
	}
	if len(p) == 0 {
		return 0, nil
	}
	n := len(p)
	if r.call < len(r.prog) {
		st := r.prog[r.call]
		r.call++
		if st.N == 0 && r.stall < 3 {
			r.stall++
			r.Fired["stall"]++
			return 0, nil
		}
		if st.N > 0 && st.N < n {
			n = st.N
			r.Fired["short-read"]++
		}
	}
	r.stall = 0
	if n > len(r.data)-r.pos {
		n = len(r.data) - r.pos
	}
	copy(p, r.data[r.pos:r.pos+n])
	r.pos += n
	if r.pos == len(r.data) && r.EOFWith {
		r.Fired["eof-with-data"]++
		return n, io.EOF
	}
	return n, nil
}

func (r *Reader) Calls() int { return r.call }

package wire

import (
	"bytes"
	"testing"
)

func TestApplyEach(t *testing.T) {
	in := map[string][]byte{"a": {1, 2, 3, 4}, "b": {9, 9}, "other.a": {7, 7, 7, 7}}
	out, _, ap := ApplyEach(in, []Mut{
		{Field: "a", Kind: "flip", I: 0},
		{Field: "b", Kind: "dropend", I: 5}, // cannot apply
		{Field: "a", Kind: "tailsplice", I: 2, Other: "other.a"},
		{Field: "a", Kind: "resplit", Other: "b", I: -1},
		{Field: "zz", Kind: "flip"}, // unknown field
	})
	if !ap[0] || ap[1] || !ap[2] || !ap[3] || ap[4] {
		t.Fatalf("applied flags: %v", ap)
	}
	if !bytes.Equal(out["a"], []byte{0x81, 2, 7}) || !bytes.Equal(out["b"], []byte{7, 9, 9}) {
		t.Fatalf("result: %v %v", out["a"], out["b"])
	}
	if !bytes.Equal(in["a"], []byte{1, 2, 3, 4}) {
		t.Fatalf("input was modified")
	}
}

// Package wire is the simulated link between two users of the library (seam S5). The
// library has no transport, so nothing is lost or delayed; what a peer meets on a faulty
// or hostile link is corruption: bit flips, dropped/inserted bytes, truncation,
// extension, fields swapped or spliced in from another message, replays.
package wire

import "fmt"

// Mut is one corruption applied to a named field of a message in transit.
type Mut struct {
	Field string `json:"field"`
	Kind  string `json:"kind"`            // flip | drop | insert | trunc | extend | zero | swap | splice | tailsplice | dropend | resplit
	I     int    `json:"i,omitempty"`     // bit index (flip), byte index (drop/insert), new length (trunc), count (extend)
	V     int    `json:"v,omitempty"`     // byte value (insert/extend)
	Other string `json:"other,omitempty"` // swap: second field; splice: field of the other message ("other.<name>")
}

func (m Mut) String() string {
	return fmt.Sprintf("%s(%s,%d,%d,%s)", m.Kind, m.Field, m.I, m.V, m.Other)
}

// Apply returns the delivered fields. Fields not present are left absent. fired counts
// the corruptions that actually changed something.
func Apply(fields map[string][]byte, muts []Mut) (out map[string][]byte, fired map[string]int) {
	out, fired, _ = ApplyEach(fields, muts)
	return
}

// ApplyEach is Apply that also reports, per corruption, whether it changed anything.
func ApplyEach(fields map[string][]byte, muts []Mut) (out map[string][]byte, fired map[string]int, applied []bool) {
	applied = make([]bool, len(muts))
	out = map[string][]byte{}
	for k, v := range fields {
		out[k] = append([]byte{}, v...)
	}
	fired = map[string]int{}
	for mi, m := range muts {
		b, ok := out[m.Field]
		if !ok {
			continue
		}
		before := append([]byte{}, b...)
		switch m.Kind {
		case "flip":
			if len(b) == 0 {
				continue
			}
			i := m.I % (8 * len(b))
			if i < 0 {
				i += 8 * len(b)
			}
			b[i/8] ^= 1 << uint(7-i%8)
		case "drop":
			if len(b) == 0 {
				continue
			}
			i := m.I % len(b)
			b = append(b[:i], b[i+1:]...)
		case "insert":
			i := m.I % (len(b) + 1)
			b = append(b[:i], append([]byte{byte(m.V)}, b[i:]...)...)
		case "trunc":
			if m.I >= len(b) || m.I < 0 {
				continue
			}
			b = b[:m.I]
		case "extend":
			if m.I <= 0 {
				continue
			}
			for j := 0; j < m.I; j++ {
				b = append(b, byte(m.V+j))
			}
		case "zero":
			for j := range b {
				b[j] = 0
			}
		case "swap":
			o, ok := out[m.Other]
			if !ok {
				continue
			}
			out[m.Other] = b
			b = o
		case "splice":
			o, ok := fields[m.Other]
			if !ok {
				continue
			}
			b = append([]byte{}, o...)
		case "tailsplice": // last I bytes replaced by the last I bytes of another field (tag of A on body of B)
			o, ok := fields[m.Other]
			if !ok || m.I <= 0 || m.I > len(b) || m.I > len(o) {
				continue
			}
			copy(b[len(b)-m.I:], o[len(o)-m.I:])
		case "resplit": // the boundary between this field and the next one (Other) moves by I bytes (I<0: to the left)
			o, ok := out[m.Other]
			if !ok || m.I == 0 {
				continue
			}
			joined := append(append([]byte{}, b...), o...)
			cut := len(b) + m.I
			if cut < 0 || cut > len(joined) {
				continue
			}
			b = append([]byte{}, joined[:cut]...)
			out[m.Other] = append([]byte{}, joined[cut:]...)
		case "dropend": // remove the last I bytes
			if m.I <= 0 || m.I > len(b) {
				continue
			}
			b = b[:len(b)-m.I]
		default:
			continue
		}
		if !bytesEqual(before, b) {
			applied[mi] = true
			fired["wire:"+m.Kind]++
		}
		out[m.Field] = b
	}
	return out, fired, applied
}

func bytesEqual(a, b []byte) bool {
	if len(a) != len(b) {
		return false
	}
	for i := range a {
		if a[i] != b[i] {
			return false
		}
	}
	return true
}

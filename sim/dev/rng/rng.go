// Package rng is the simulated randomness device (seam S1): a content stream of
// 32-byte candidates chosen by the workload, delivered through a per-Read fault
// program (short reads, stalls, errors with or without bytes, sticky failure).
package rng

import (
	"encoding/hex"
	"errors"
	"io"
	"os"
	"syscall"

	"verif/sim/core"
)

// Step is the delivery decision for one Read call.
type Step struct {
	Kind string `json:"kind"`          // full | short | stall | err
	N    int    `json:"n,omitempty"`   // short: bytes delivered (clamped to 1..len-1); err: bytes delivered with the error (clamped to 0..len)
	Err  string `json:"err,omitempty"` // EOF | UnexpectedEOF | custom | EINTR | EAGAIN-path | timeout
	// Transient: the error is delivered once and the source then carries on (an interrupted
	// or timed-out read of a real device); the default is a source that stays failed
	Transient bool `json:"transient,omitempty"`
}

var ErrCustom = errors.New("simulated entropy source failure")

func errOf(name string) error {
	switch name {
	case "EOF":
		return io.EOF
	case "UnexpectedEOF":
		return io.ErrUnexpectedEOF
	case "EINTR": // an Errno: has Temporary() and Timeout() methods
		return syscall.EINTR
	case "EAGAIN-path":
		return &os.PathError{Op: "read", Path: "/dev/urandom", Err: syscall.EAGAIN}
	case "timeout":
		return os.ErrDeadlineExceeded
	}
	return ErrCustom
}

// Content describes the stream: explicit candidates followed by an endless
// deterministic continuation (so a fault-free twin always terminates).
type Content struct {
	Candidates []string `json:"candidates"` // hex, usually 32 bytes each
	TailSeed   uint64   `json:"tail_seed"`
	// Flood > 0: the stream starts with this many unusable 32-byte candidates (all 0xff, or
	// all zero for FloodZero) before anything else; they are generated on the fly, so a
	// source that is stuck for hundreds of megabytes costs no memory
	Flood     int  `json:"flood,omitempty"`
	FloodZero bool `json:"flood_zero,omitempty"`
}

func (c Content) Prefix() []byte {
	var b []byte
	for _, h := range c.Candidates {
		x, err := hex.DecodeString(h)
		if err != nil {
			panic("rng: bad candidate hex")
		}
		b = append(b, x...)
	}
	return b
}

type Device struct {
	prefix  []byte
	tail    *core.Rand
	tailBuf []byte
	program []Step

	Delivered      int // bytes handed out so far
	Calls          int
	ErrFired       bool
	DeliveredAtErr int
	failed         error
	Fired          map[string]int
	MaxStall       int
	stallRun       int
	longLeft       int
	longDone       map[int]bool
	reads          int
	Log            *core.Log
	flood          int // bytes
	floodByte      byte
}

func New(c Content, program []Step, log *core.Log) *Device {
	d := &Device{prefix: c.Prefix(), tail: core.NewRand(c.TailSeed ^ 0x5eed), program: program, Fired: map[string]int{}, Log: log}
	if c.Flood > 0 {
		d.flood, d.floodByte = 32*c.Flood, 0xff
		if c.FloodZero {
			d.floodByte = 0
		}
	}
	return d
}

func (d *Device) next(n int) []byte {
	out := make([]byte, n)
	if d.Delivered+n <= d.flood {
		if d.floodByte != 0 {
			for i := range out {
				out[i] = d.floodByte
			}
		}
		return out
	}
	for d.flood+len(d.prefix)+len(d.tailBuf) < d.Delivered+n {
		d.tailBuf = append(d.tailBuf, d.tail.Bytes(64)...)
	}
	for i := 0; i < n; i++ {
		p := d.Delivered + i - d.flood
		if p < 0 {
			out[i] = d.floodByte
		} else if p < len(d.prefix) {
			out[i] = d.prefix[p]
		} else {
			out[i] = d.tailBuf[p-len(d.prefix)]
		}
	}
	return out
}

// MaxCalls bounds the reads of one device: a caller that keeps reading from a source
// that has failed, or never accepts a candidate, does not terminate. The bound turns
// that into a panic the executor reports, instead of a hung worker.
const MaxCalls = 100000

// MaxStallReads bounds one long stall (consecutive empty reads from one program step).
const MaxStallReads = 5 << 20

func (d *Device) stallBudget() int {
	n := 0
	for _, st := range d.program {
		if st.Kind == "longstall" {
			k := st.N
			if k > MaxStallReads {
				k = MaxStallReads
			}
			n += k
		}
	}
	return n
}

func (d *Device) Read(p []byte) (int, error) {
	call := d.Calls
	d.Calls++
	if d.Calls > MaxCalls+64*len(d.program)+len(d.prefix)+d.flood {
		panic("randomness device: far more reads by one call than its stream and fault program can explain: the call does not terminate")
	}
	if d.failed != nil {
		d.Fired["sticky-err"]++
		d.log("read#%d len=%d -> 0,%v (sticky)", call, len(p), d.failed)
		return 0, d.failed
	}
	st := Step{Kind: "full"}
	if call < len(d.program) {
		st = d.program[call]
	}
	if len(p) == 0 {
		d.log("read#%d len=0", call)
		return 0, nil
	}
	switch st.Kind {
	case "stall":
		if d.stallRun < 3 {
			d.stallRun++
			d.Fired["stall"]++
			d.log("read#%d len=%d -> 0,nil (stall)", call, len(p))
			return 0, nil
		}
		st.Kind = "full"
	case "longstall":
		// N consecutive empty reads from this one program step: a source that makes no
		// progress for a long while (but finitely long) and then carries on
		if d.longLeft == 0 && !d.longDone[call] {
			d.longLeft = st.N
			if d.longLeft > MaxStallReads {
				d.longLeft = MaxStallReads
			}
			if d.longLeft >= 1<<20 {
				d.Fired["stall>=2^20-reads"]++
			}
			if d.longDone == nil {
				d.longDone = map[int]bool{}
			}
			d.longDone[call] = true
		}
		if d.longLeft > 0 {
			d.longLeft--
			d.Calls-- // stay on this program step until the stall is over
			d.reads++
			if d.reads > MaxCalls+d.stallBudget() {
				panic("randomness device: far more reads by one call than its stream and fault program can explain: the call does not terminate")
			}
			d.Fired["long-stall-read"]++
			return 0, nil
		}
		st.Kind = "full"
	case "short":
		n := st.N
		if n < 1 {
			n = 1
		}
		if n >= len(p) {
			n = len(p) - 1
		}
		if n >= 1 {
			d.stallRun = 0
			copy(p, d.next(n))
			d.Delivered += n
			d.Fired["short"]++
			d.log("read#%d len=%d -> %d,nil (short)", call, len(p), n)
			return n, nil
		}
		st.Kind = "full"
	case "err":
		n := st.N
		if n < 0 {
			n = 0
		}
		if n > len(p) {
			n = len(p)
		}
		copy(p, d.next(n))
		d.Delivered += n
		e := errOf(st.Err)
		if !st.Transient {
			d.failed = e
		}
		// A transient error that arrives together with every byte the caller asked for is not a
		// failed draw: the io.Reader contract has the caller use the bytes first, io.ReadFull then
		// drops the error, and the source is healthy again on the next read. It is delivered (a
		// caller must cope with it) but not counted as the failure the run is judged by.
		absorbed := st.Transient && n == len(p)
		if !d.ErrFired && !absorbed {
			d.ErrFired = true
			d.DeliveredAtErr = d.Delivered
		}
		k := "err-" + st.Err
		if st.Transient {
			k = "transient-" + k
		}
		if n == len(p) {
			k += "-with-all-bytes"
		} else if n > 0 {
			k += "-with-some-bytes"
		}
		d.Fired[k]++
		d.log("read#%d len=%d -> %d,%v", call, len(p), n, e)
		return n, e
	}
	d.stallRun = 0
	copy(p, d.next(len(p)))
	d.Delivered += len(p)
	d.log("read#%d len=%d -> full", call, len(p))
	return len(p), nil
}

func (d *Device) log(f string, a ...interface{}) {
	if d.flood > 0 && d.Delivered > 64 && d.Delivered < d.flood-64 {
		return // inside the flood: millions of identical reads are not logged one by one
	}
	if d.Log != nil {
		d.Log.Add("rng "+f, a...)
	}
}

package rng

import (
	"bytes"
	"io"
	"testing"
)

func TestDeliveryProgram(t *testing.T) {
	c := Content{Candidates: []string{"000102030405060708090a0b0c0d0e0f101112131415161718191a1b1c1d1e1f"}, TailSeed: 7}
	// perfect delivery and faulty delivery must hand out the same bytes
	ref := make([]byte, 96)
	if _, err := io.ReadFull(New(c, nil, nil), ref); err != nil {
		t.Fatal(err)
	}
	prog := []Step{{Kind: "stall"}, {Kind: "short", N: 5}, {Kind: "stall"}, {Kind: "stall"}, {Kind: "stall"}, {Kind: "stall"}, {Kind: "short", N: 40}, {Kind: "full"}}
	d := New(c, prog, nil)
	got := make([]byte, 96)
	if _, err := io.ReadFull(d, got); err != nil {
		t.Fatal(err)
	}
	if !bytes.Equal(ref, got) || d.Delivered != 96 {
		t.Fatalf("faulty delivery changed the content")
	}
	// the 4th stall in a row is turned into a full read (stalls are bounded to 3)
	if d.Fired["stall"] != 4 || d.Fired["short"] != 1 {
		t.Fatalf("fault accounting: %v", d.Fired)
	}
	// error with bytes, then sticky
	d = New(c, []Step{{Kind: "err", N: 7, Err: "EOF"}}, nil)
	buf := make([]byte, 32)
	n, err := d.Read(buf)
	if n != 7 || err != io.EOF || !d.ErrFired || d.DeliveredAtErr != 7 {
		t.Fatalf("err step: %d %v", n, err)
	}
	if n, err = d.Read(buf); n != 0 || err != io.EOF {
		t.Fatalf("error must be sticky")
	}
}

// Package sched is the cooperative task scheduler (seam S3). Tasks are goroutines, but
// exactly one holds the baton at any time and every decision about who runs next is
// drawn from the PRNG (or read from an explicit schedule when replaying / shrinking).
//
// Under -race the baton hand-over is wrapped in runtime.RaceDisable/RaceEnable, which
// hides the synchronisation the baton would otherwise create while memory accesses are
// still recorded: to ThreadSanitizer the tasks look unsynchronised although they run
// strictly one at a time, so any conflicting pair of accesses from two tasks is
// reported deterministically for that schedule, not only when it happens to overlap.
//
// Scheduler state is touched only by the baton holder and lives in //go:norace
// functions with a self-contained PRNG.
package sched

import (
	"runtime"
	"sync"
	"time"

	"verif/sim/core"
)

// Switch records one context switch: at the At-th yield point visit, control went to To.
type Switch struct {
	At uint64 `json:"at"`
	To int    `json:"to"`
}

type task struct {
	id      int
	wake    chan struct{}
	done    bool
	started bool
	fn      func()
}

type Sched struct {
	rng      *core.Rand
	den      int
	explicit bool
	switches []Switch
	swi      int
	endPicks []int
	epi      int

	tasks []*task
	cur   int
	count uint64
	wg    sync.WaitGroup

	// recorded schedule (valid after Run)
	Rec     []Switch
	RecEnds []int
	Sites   []int32 // yield site (mod len) -> switches taken there
	OnStep  func(task int)
	Stuck   bool
	active  bool
	// BlockedN counts forced switches away from a task waiting for a lock
	BlockedN int
	// PinTasks (set before Run): each task runs on an OS thread of its own
	PinTasks bool
	// StartBurst > 0 (set before Run, seeded mode): an opening phase in which every task in
	// turn gets the baton for StartBurst yield points, so that all of them are in the middle
	// of their first call before ordinary scheduling begins
	StartBurst int
	since      int
	startDone  bool
	// Weights (set before Run, seeded mode): task i is chosen with probability proportional
	// to Weights[i] (default 1) whenever the scheduler picks who runs next. A few heavy tasks
	// race through many calls while many light ones sit in the middle of theirs.
	Weights []int
}

// NewSeeded makes a scheduler that switches with probability 1/den at every yield.
func NewSeeded(seed uint64, den int) *Sched {
	if den < 1 {
		den = 1
	}
	return &Sched{rng: core.NewRand(seed), den: den, Sites: make([]int32, 4096)}
}

// NewExplicit makes a scheduler that follows a recorded schedule exactly.
func NewExplicit(sw []Switch, ends []int) *Sched {
	return &Sched{explicit: true, switches: sw, endPicks: ends, Sites: make([]int32, 4096)}
}

//go:norace
func (s *Sched) Count() uint64 { return s.count }

//go:norace
func (s *Sched) Current() int { return s.cur }

// pick chooses among candidate task ids by weight.
//
//go:norace
func (s *Sched) pick(r []int) int {
	if len(s.Weights) == 0 {
		return r[s.rng.Intn(len(r))]
	}
	total := 0
	for _, id := range r {
		total += s.weight(id)
	}
	v := s.rng.Intn(total)
	for _, id := range r {
		if w := s.weight(id); v < w {
			return id
		} else {
			v -= w
		}
	}
	return r[len(r)-1]
}

//go:norace
func (s *Sched) weight(id int) int {
	if id < len(s.Weights) && s.Weights[id] > 0 {
		return s.Weights[id]
	}
	return 1
}

//go:norace
func (s *Sched) unstartedAmong(r []int) int {
	for _, id := range r {
		if !s.tasks[id].started {
			return id
		}
	}
	return -1
}

// unstarted returns the lowest-numbered task that has never held the baton, or -1.
//
//go:norace
func (s *Sched) unstarted() int {
	for _, t := range s.tasks {
		if !t.started && !t.done && t.id != s.cur {
			return t.id
		}
	}
	return -1
}

//go:norace
func (s *Sched) runnableOther() []int {
	var r []int
	for _, t := range s.tasks {
		if !t.done && t.id != s.cur {
			r = append(r, t.id)
		}
	}
	return r
}

// Yield is a point where the scheduler may take the baton away from the running task.
//
//go:norace
func (s *Sched) Yield(site int) {
	if !s.active {
		return
	}
	s.count++
	if s.OnStep != nil {
		s.OnStep(s.cur)
	}
	to := -1
	if s.explicit {
		if s.swi < len(s.switches) && s.switches[s.swi].At == s.count {
			to = s.switches[s.swi].To
			s.swi++
		}
	} else if s.StartBurst > 0 && !s.startDone {
		if s.since++; s.since >= s.StartBurst {
			if to = s.unstarted(); to < 0 {
				s.startDone = true
			}
			s.since = 0
		}
	} else if s.rng.Intn(s.den) == 0 {
		if r := s.runnableOther(); len(r) > 0 {
			to = s.pick(r)
		}
	}
	if to < 0 || to >= len(s.tasks) || to == s.cur || s.tasks[to].done {
		return
	}
	s.Rec = append(s.Rec, Switch{At: s.count, To: to})
	s.Sites[uint(site)%uint(len(s.Sites))]++
	from := s.cur
	s.cur = to
	s.tasks[to].started = true
	raceDisable()
	s.tasks[to].wake <- struct{}{}
	<-s.tasks[from].wake
	raceEnable()
}

// Blocked is called by a task that cannot proceed because a lock it needs is held by a
// parked task (see cmd/yieldinst): the baton must go to somebody else. The forced switch
// is recorded like any other, so explicit schedules replay it; where an explicit schedule
// has no switch at this point (a shrunk schedule) the lowest-numbered other task runs.
//
//go:norace
func (s *Sched) Blocked(site int) {
	if !s.active {
		runtime.Gosched()
		return
	}
	s.count++
	s.BlockedN++
	to := -1
	if s.explicit && s.swi < len(s.switches) && s.switches[s.swi].At == s.count {
		to = s.switches[s.swi].To
		s.swi++
	}
	if to < 0 || to >= len(s.tasks) || to == s.cur || s.tasks[to].done {
		r := s.runnableOther()
		if len(r) == 0 {
			runtime.Gosched() // nobody else is left: the lock can only be freed by a real thread
			return
		}
		if s.explicit {
			to = r[0]
		} else {
			to = s.pick(r)
		}
	}
	s.Rec = append(s.Rec, Switch{At: s.count, To: to})
	from := s.cur
	s.cur = to
	s.tasks[to].started = true
	raceDisable()
	s.tasks[to].wake <- struct{}{}
	<-s.tasks[from].wake
	raceEnable()
}

//go:norace
func (s *Sched) finish(t *task) {
	t.done = true
	var r []int
	for _, o := range s.tasks {
		if !o.done {
			r = append(r, o.id)
		}
	}
	if len(r) == 0 {
		return
	}
	next := r[0]
	if s.explicit {
		if s.epi < len(s.endPicks) {
			for _, id := range r {
				if id == s.endPicks[s.epi] {
					next = id
				}
			}
			s.epi++
		}
	} else if u := s.unstartedAmong(r); s.StartBurst > 0 && !s.startDone && u >= 0 {
		next = u
	} else {
		next = s.pick(r)
	}
	s.RecEnds = append(s.RecEnds, next)
	s.cur = next
	s.tasks[next].started = true
	raceDisable()
	s.tasks[next].wake <- struct{}{}
	raceEnable()
}

// Run executes the task functions to completion under the schedule. It returns false
// if the tasks did not all finish within the (real-time) watchdog, which only happens
// when a task blocks on something the scheduler does not own.
func (s *Sched) Run(fns []func(), first int, watchdog time.Duration) bool {
	s.tasks = nil
	for i, f := range fns {
		s.tasks = append(s.tasks, &task{id: i, wake: make(chan struct{}, 1), fn: f})
	}
	if len(fns) == 0 {
		return true
	}
	s.wg.Add(len(fns))
	for _, t := range s.tasks {
		t := t
		go func() {
			if s.PinTasks {
				// every task is a caller thread of its own: a fresh OS thread that ends with the
				// task (seam S7, see core/thread.go), not whichever thread the Go scheduler has at
				// hand. Every hand-over of the baton is then a switch between OS threads, which
				// costs microseconds: the script decides per run.
				runtime.LockOSThread()
			}
			raceDisable()
			<-t.wake
			raceEnable()
			t.fn()
			s.finish(t)
			s.wg.Done()
		}()
	}
	if first < 0 || first >= len(fns) {
		first = 0
	}
	s.cur = first
	s.tasks[first].started = true
	s.active = true
	raceDisable()
	s.tasks[first].wake <- struct{}{}
	raceEnable()
	done := make(chan struct{})
	go func() { s.wg.Wait(); close(done) }()
	select {
	case <-done:
		s.active = false
		return true
	case <-time.After(watchdog):
		s.Stuck = true
		return false
	}
}

//go:build !race

package sched

const RaceBuild = false

func raceDisable() {}
func raceEnable()  {}

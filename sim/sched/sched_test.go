package sched

import (
	"fmt"
	"sort"
	"testing"
	"time"
)

type ev struct {
	at uint64
	id int
}

// trace records, per task (so that the tasks share no memory: under -race the baton is
// invisible to the detector and a shared variable would rightly be reported), the yield
// count at which each step ran, and merges afterwards.
func trace(s *Sched, n, steps int) string {
	per := make([][]ev, n)
	var fns []func()
	for t := 0; t < n; t++ {
		t := t
		fns = append(fns, func() {
			for i := 0; i < steps; i++ {
				s.Yield(i)
				per[t] = append(per[t], ev{s.Count(), t})
			}
		})
	}
	if !s.Run(fns, 0, 10*time.Second) {
		return "stuck"
	}
	var all []ev
	for _, p := range per {
		all = append(all, p...)
	}
	sort.Slice(all, func(i, j int) bool { return all[i].at < all[j].at })
	out := ""
	for _, e := range all {
		out += fmt.Sprint(e.id)
	}
	return out
}

func TestSeededAndExplicitAgree(t *testing.T) {
	a := NewSeeded(42, 2)
	ta := trace(a, 4, 30)
	b := NewSeeded(42, 2)
	tb := trace(b, 4, 30)
	if ta != tb || len(ta) != 120 {
		t.Fatalf("same seed, different schedules")
	}
	c := NewExplicit(a.Rec, a.RecEnds)
	if tc := trace(c, 4, 30); tc != ta {
		t.Fatalf("explicit replay of the recorded schedule differs")
	}
	if len(a.Rec) == 0 {
		t.Fatalf("no switches recorded")
	}
	// dropping all switches lets every task run to completion in turn
	d := NewExplicit(nil, nil)
	td := trace(d, 3, 5)
	if td != "000001111122222" {
		t.Fatalf("no-switch schedule: %s", td)
	}
}

// lockTrace: three tasks take a cooperative lock (a flag and Blocked, the shape
// cmd/yieldinst gives to x.Lock()), yield inside the critical section, and release.
func lockTrace(s *Sched) (string, int) {
	held := false // only touched by the task that holds the baton
	order := ""
	var fns []func()
	for t := 0; t < 3; t++ {
		t := t
		fns = append(fns, func() {
			for round := 0; round < 4; round++ {
				s.Yield(1)
				for held {
					s.Blocked(2)
				}
				held = true
				for i := 0; i < 5; i++ {
					s.Yield(3)
				}
				order += fmt.Sprint(t)
				held = false
			}
		})
	}
	if !s.Run(fns, 0, 10*time.Second) {
		return "stuck", 0
	}
	return order, s.BlockedN
}

func TestBlockedHandsTheBatonOn(t *testing.T) {
	if RaceBuild {
		t.Skip("the tasks share a flag on purpose; to the race detector the baton is invisible")
	}
	a := NewSeeded(7, 2)
	oa, na := lockTrace(a)
	if oa == "stuck" || len(oa) != 12 {
		t.Fatalf("tasks waiting for a cooperative lock did not finish: %q", oa)
	}
	if na == 0 {
		t.Fatalf("no task ever found the lock taken: the test does not exercise Blocked")
	}
	b := NewSeeded(7, 2)
	if ob, nb := lockTrace(b); ob != oa || nb != na {
		t.Fatalf("same seed, different lock order: %q/%d vs %q/%d", oa, na, ob, nb)
	}
	c := NewExplicit(a.Rec, a.RecEnds)
	if oc, _ := lockTrace(c); oc != oa {
		t.Fatalf("explicit replay differs: %q vs %q", oa, oc)
	}
	// a schedule with every switch removed still terminates (Blocked picks somebody itself)
	d := NewExplicit(nil, nil)
	if od, _ := lockTrace(d); od == "stuck" || len(od) != 12 {
		t.Fatalf("empty explicit schedule got stuck on the lock: %q", od)
	}
}

package sched

import (
	"fmt"
	"sort"
	"testing"
	"time"
)

type ev struct {
	at uint64
	id int
}

// trace records, per task (so that the tasks share no memory: under -race the baton is
// invisible to the detector and a shared variable would rightly be reported), the yield
// count at which each step ran, and merges afterwards.
func trace(s *Sched, n, steps int) string {
	per := make([][]ev, n)
	var fns []func()
	for t := 0; t < n; t++ {
		t := t
		fns = append(fns, func() {
			for i := 0; i < steps; i++ {
				s.Yield(i)
				per[t] = append(per[t], ev{s.Count(), t})
			}
		})
	}
	if !s.Run(fns, 0, 10*time.Second) {
		return "stuck"
	}
	var all []ev
	for _, p := range per {
		all = append(all, p...)
	}
	sort.Slice(all, func(i, j int) bool { return all[i].at < all[j].at })
	out := ""
	for _, e := range all {
		out += fmt.Sprint(e.id)
	}
	return out
}

func TestSeededAndExplicitAgree(t *testing.T) {
	a := NewSeeded(42, 2)
	ta := trace(a, 4, 30)
	b := NewSeeded(42, 2)
	tb := trace(b, 4, 30)
	if ta != tb || len(ta) != 120 {
		t.Fatalf("same seed, different schedules")
	}
	c := NewExplicit(a.Rec, a.RecEnds)
	if tc := trace(c, 4, 30); tc != ta {
		t.Fatalf("explicit replay of the recorded schedule differs")
	}
	if len(a.Rec) == 0 {
		t.Fatalf("no switches recorded")
	}
	// dropping all switches lets every task run to completion in turn
	d := NewExplicit(nil, nil)
	td := trace(d, 3, 5)
	if td != "000001111122222" {
		t.Fatalf("no-switch schedule: %s", td)
	}
}

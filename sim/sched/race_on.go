//go:build race

package sched

import "runtime"

// RaceBuild reports whether the binary was built with the race detector.
const RaceBuild = true

func raceDisable() { runtime.RaceDisable() }
func raceEnable()  { runtime.RaceEnable() }

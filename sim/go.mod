module verif/sim

go 1.17

require github.com/bilibili/smgo v0.0.0

require github.com/klauspost/cpuid/v2 v2.0.10 // indirect

replace github.com/bilibili/smgo => /repo

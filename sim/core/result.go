package core

import (
	"crypto/sha256"
	"encoding/hex"
	"fmt"
	"sort"
	"strings"
)

// Violation is what an oracle reports. Signature() identifies the *kind* of failure
// (class / operation / role / parameter class) so that known findings can be matched
// without hiding a different violation of the same property.
type Violation struct {
	Class  string `json:"class"`  // panic, wrong-result, input-modified, fault, canary, race, accepted-invalid, rejected-valid, no-error, bytes-consumed, write-n, ...
	Op     string `json:"op"`     // operation kind
	Role   string `json:"role"`   // object / buffer role involved
	Param  string `json:"param"`  // smallest distinguishing parameter class
	Detail string `json:"detail"` // free text for humans; not part of the signature
}

func (v *Violation) Signature(prop string) string {
	return fmt.Sprintf("%s/%s/%s/%s/%s", prop, v.Class, v.Op, v.Role, v.Param)
}

// Log is the per-run event log. Only its rolling hash is kept unless Keep is set
// (replay / sample output).
type Log struct {
	h     [32]byte
	n     int
	Keep  bool
	Lines []string
}

func (l *Log) Add(format string, a ...interface{}) {
	s := fmt.Sprintf(format, a...)
	hh := sha256.New()
	hh.Write(l.h[:])
	hh.Write([]byte(s))
	copy(l.h[:], hh.Sum(nil))
	l.n++
	if l.Keep {
		l.Lines = append(l.Lines, s)
	}
}

func (l *Log) Hash() string { return hex.EncodeToString(l.h[:8]) }
func (l *Log) Steps() int   { return l.n }

// Hex8 is a short digest of bytes for event logs.
func Hex8(b []byte) string {
	s := sha256.Sum256(b)
	return hex.EncodeToString(s[:6])
}

// Result of executing one script.
type Result struct {
	Violation   *Violation
	EventHash   string
	Steps       int            // simulated steps (scheduler events, reader calls, deliveries, ops)
	Fingerprint string         // coverage fingerprint: op kinds x length classes x faults fired x schedule shape
	Nontrivial  bool           // at least one fault fired / context switch inside an op / boundary condition met
	Faults      map[string]int // fault kinds that actually fired
	Probes      map[string]int // rare-branch probes
	Unclaimed   []string       // observations outside this property's statement (never a verdict)
	Interleave  string         // schedule fingerprint (concurrent runs)
	LogLines    []string
}

func NewResult() *Result {
	return &Result{Faults: map[string]int{}, Probes: map[string]int{}}
}

// Fp builds a fingerprint string from parts.
func Fp(parts ...string) string { return strings.Join(parts, "|") }

func SortedKeys(m map[string]int) []string {
	ks := make([]string, 0, len(m))
	for k := range m {
		ks = append(ks, k)
	}
	sort.Strings(ks)
	return ks
}

// FaultSet renders the set of fired fault kinds deterministically.
func FaultSet(m map[string]int) string {
	ks := []string{}
	for _, k := range SortedKeys(m) {
		if m[k] > 0 {
			ks = append(ks, k)
		}
	}
	return strings.Join(ks, ",")
}

// Hash64 of a string for compact fingerprint sets.
func Hash64(s string) uint64 { return fnv64(s) }

// Catch runs f and converts a panic into (true, text). Fault panics are reported with
// their address through the runtime.Error Addr method when available.
func Catch(f func()) (panicked bool, text string, addr uintptr, isFault bool) {
	defer func() {
		if r := recover(); r != nil {
			panicked = true
			text = fmt.Sprint(r)
			if ae, ok := r.(interface{ Addr() uintptr }); ok {
				addr = ae.Addr()
				isFault = true
			}
		}
	}()
	f()
	return
}

// Package core holds the pieces every simulated property check shares: the single
// PRNG all decisions derive from, the event log with its rolling hash, result and
// violation types, fingerprints for coverage accounting, and the greedy shrinker.
//
// Nothing in this package reads a clock (except the time bound of the shrinker), iterates a Go map without sorting, or draws
// from any randomness other than *Rand.
package core

import (
	"encoding/binary"
)

// Rand is xoshiro256** seeded through splitmix64. One Rand per labelled stream, so that
// adding a draw in one component never shifts another component's choices.
type Rand struct{ s [4]uint64 }

func splitmix(x *uint64) uint64 {
	*x += 0x9e3779b97f4a7c15
	z := *x
	z = (z ^ (z >> 30)) * 0xbf58476d1ce4e5b9
	z = (z ^ (z >> 27)) * 0x94d049bb133111eb
	return z ^ (z >> 31)
}

func NewRand(seed uint64) *Rand {
	r := &Rand{}
	x := seed
	for i := range r.s {
		r.s[i] = splitmix(&x)
	}
	if r.s[0]|r.s[1]|r.s[2]|r.s[3] == 0 {
		r.s[0] = 1
	}
	return r
}

func fnv64(label string) uint64 {
	h := uint64(0xcbf29ce484222325)
	for i := 0; i < len(label); i++ {
		h ^= uint64(label[i])
		h *= 0x100000001b3
	}
	return h
}

// Mix derives a sub-seed from a seed and labels/integers; it is a pure function.
func Mix(seed uint64, label string, idx uint64) uint64 {
	x := seed ^ fnv64(label)
	a := splitmix(&x)
	x ^= idx * 0xd6e8feb86659fd93
	b := splitmix(&x)
	return a ^ (b<<1 | b>>63)
}

// Split returns an independent stream named label. It does not advance r.
func (r *Rand) Split(label string) *Rand {
	return NewRand(Mix(r.s[0]^r.s[2], label, r.s[1]^r.s[3]))
}

func rotl(x uint64, k uint) uint64 { return (x << k) | (x >> (64 - k)) }

//go:norace
func (r *Rand) Uint64() uint64 {
	s := &r.s
	res := rotl(s[1]*5, 7) * 9
	t := s[1] << 17
	s[2] ^= s[0]
	s[3] ^= s[1]
	s[1] ^= s[2]
	s[0] ^= s[3]
	s[2] ^= t
	s[3] = rotl(s[3], 45)
	return res
}

// Intn returns a value in [0,n). n<=0 returns 0.
//
//go:norace
func (r *Rand) Intn(n int) int {
	if n <= 1 {
		return 0
	}
	// Lemire-style rejection is unnecessary at these sizes; modulo bias < 2^-40.
	return int(r.Uint64() % uint64(n))
}

// Range returns a value in [lo,hi].
func (r *Rand) Range(lo, hi int) int {
	if hi <= lo {
		return lo
	}
	return lo + r.Intn(hi-lo+1)
}

// Chance is true with probability num/den.
//
//go:norace
func (r *Rand) Chance(num, den int) bool { return r.Intn(den) < num }

func (r *Rand) Bytes(n int) []byte {
	b := make([]byte, n)
	r.Fill(b)
	return b
}

func (r *Rand) Fill(b []byte) {
	var w [8]byte
	for i := 0; i < len(b); i += 8 {
		binary.LittleEndian.PutUint64(w[:], r.Uint64())
		copy(b[i:], w[:])
	}
}

// PickInt picks one of the given values.
func (r *Rand) PickInt(vs ...int) int { return vs[r.Intn(len(vs))] }

// Weighted picks an index with probability proportional to w[i].
func (r *Rand) Weighted(w ...int) int {
	t := 0
	for _, x := range w {
		t += x
	}
	v := r.Intn(t)
	for i, x := range w {
		if v < x {
			return i
		}
		v -= x
	}
	return len(w) - 1
}

// LenClasses are the boundary-biased lengths used by every workload (block and
// kernel boundaries of SM3 and of the SM4/GCM kernels).
var LenClasses = []int{0, 1, 2, 3, 7, 8, 15, 16, 17, 31, 32, 33, 47, 48, 55, 56, 57, 63, 64, 65, 79, 80, 95, 96, 111, 112,
	127, 128, 129, 143, 144, 191, 192, 193, 255, 256, 257, 271, 272, 287, 288, 319, 320, 383, 384, 385, 447, 448, 449,
	511, 512, 513, 527, 528, 767, 768, 769, 1023, 1024, 1025, 1100}

// Len draws a length <= max: mostly a boundary class, sometimes +-1..3 around one,
// sometimes uniform.
func (r *Rand) Len(max int) int {
	for tries := 0; tries < 8; tries++ {
		var v int
		switch r.Weighted(6, 2, 2) {
		case 0:
			v = LenClasses[r.Intn(len(LenClasses))]
		case 1:
			v = LenClasses[r.Intn(len(LenClasses))] + r.Range(-3, 3)
		default:
			v = r.Intn(max + 1)
		}
		if v >= 0 && v <= max {
			return v
		}
	}
	return r.Intn(max + 1)
}

// LenClass maps a length to a coarse class used in fingerprints and signatures.
func LenClass(n int) string {
	switch {
	case n == 0:
		return "0"
	case n < 16:
		return "1..15"
	case n == 16:
		return "16"
	case n < 32:
		if n%16 == 0 {
			return "16k"
		}
		return "17..31"
	}
	t := "m16"
	if n%16 != 0 {
		t = "tail"
	}
	switch {
	case n < 64:
		return "32..63/" + t
	case n < 128:
		return "64..127/" + t
	case n < 256:
		return "128..255/" + t
	case n < 512:
		return "256..511/" + t
	}
	return "512+/" + t
}

package core

import "testing"

func TestRandDeterministicAndSplit(t *testing.T) {
	a, b := NewRand(5), NewRand(5)
	for i := 0; i < 100; i++ {
		if a.Uint64() != b.Uint64() {
			t.Fatal("same seed, different stream")
		}
	}
	w1 := NewRand(9).Split("workload")
	r := NewRand(9)
	f := r.Split("faults")
	f.Uint64() // drawing from one labelled stream must not shift another
	w2 := r.Split("workload")
	if w1.Uint64() != w2.Uint64() {
		t.Fatal("split streams are not independent of draws elsewhere")
	}
	if Mix(1, "C19", 7) == Mix(1, "C19", 8) || Mix(1, "C19", 7) == Mix(2, "C19", 7) {
		t.Fatal("Mix collides")
	}
}

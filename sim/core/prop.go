package core

import (
	"encoding/json"
	"time"
)

// Script is explicit, JSON-serialisable data describing one simulated run completely:
// configuration, operations with literal arguments, device fault programs, buffer
// layouts and (for concurrent runs) the schedule decisions. Executing a script is a
// deterministic function of (script, code under test).
type Script interface{}

// Prop is one claimed property: workload generator, executor with oracle, shrinker.
type Prop interface {
	ID() string
	// Plan says how many cases a tier runs: the first Systematic indices are an
	// enumerated fault/placement space, the remaining Seeded ones are drawn from the PRNG.
	Plan(tier string) Plan
	// Generate builds the script for run index idx. For idx < Systematic it is the
	// idx-th enumerated case (seed-independent); otherwise a pure function of r.
	Generate(idx int, r *Rand, tier string) Script
	Execute(s Script, keepLog bool) *Result
	// Shrinks proposes simpler variants of s, most aggressive first.
	Shrinks(s Script) []Script
	Decode(raw json.RawMessage) (Script, error)
	// Meta describes the check for the evidence file.
	Meta() Meta
}

type Plan struct {
	Systematic int `json:"systematic"`
	Seeded     int `json:"seeded"`
}

type Meta struct {
	Level       string            `json:"level"`
	Rule        string            `json:"rule"`
	Components  map[string]string `json:"components"`
	Assumptions []string          `json:"assumptions"`
	FaultKinds  []string          `json:"fault_kinds"`
	ProbeNames  []string          `json:"probe_names"`
	StepUnit    string            `json:"step_unit"`
}

// Shrink greedily minimises s while exec reports a violation with the same signature.
// Every candidate is executed by a fresh call of p.Execute. budget bounds executions.
//
// Minimisation is also bounded by wall-clock time (the one place this package reads a
// clock): how far a script gets minimised never affects a verdict, and whatever script
// is current when time runs out still fails with the same signature and replays exactly.
func Shrink(p Prop, s Script, sig string, budget int) (Script, int) {
	execs := 0
	cur := s
	deadline := time.Now().Add(ShrinkTime)
	for {
		progressed := false
		for _, c := range p.Shrinks(cur) {
			if execs >= budget || time.Now().After(deadline) {
				return cur, execs
			}
			// Round-trip through JSON so that the candidate is exactly what a replay
			// file would contain.
			raw, err := json.Marshal(c)
			if err != nil {
				continue
			}
			c2, err := p.Decode(raw)
			if err != nil {
				continue
			}
			execs++
			res := p.Execute(c2, false)
			if res.Violation != nil && res.Violation.Signature(p.ID()) == sig {
				cur = c2
				progressed = true
				break
			}
		}
		if !progressed {
			return cur, execs
		}
	}
}

// ShrinkTime bounds one minimisation.
var ShrinkTime = 4 * time.Minute

var registry = map[string]Prop{}

func Register(p Prop)       { registry[p.ID()] = p }
func Lookup(id string) Prop { return registry[id] }
func Registered() []string {
	m := map[string]int{}
	for k := range registry {
		m[k] = 1
	}
	return SortedKeys(m)
}

// DropRanges proposes index ranges [lo,hi) of a list of length n to delete when
// shrinking: halves and quarters for long lists (so that proposing candidates stays
// linear), single elements only once the list is short.
func DropRanges(n int) [][2]int {
	var out [][2]int
	if n > 16 {
		h, q := n/2, n/4
		out = append(out, [2]int{0, h}, [2]int{h, n}, [2]int{0, q}, [2]int{q, h}, [2]int{h, h + q}, [2]int{h + q, n})
		if n > 64 {
			e := n / 8
			for i := 0; i < 8; i++ {
				out = append(out, [2]int{i * e, (i + 1) * e})
			}
		}
		return out
	}
	for i := 0; i < n; i++ {
		out = append(out, [2]int{i, i + 1})
	}
	return out
}

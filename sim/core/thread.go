package core

import (
	"runtime"
	"runtime/debug"
)

// Seam S7: the OS thread a library call runs on. The accelerated routines use vector
// registers (ZMM16-31) that neither the Go compiler nor the runtime touches, so whatever a
// routine leaves there survives on that thread until the next routine runs on it. A
// routine that relies on such leftovers works on a "warm" thread and fails on a thread
// that never ran it - which thread a goroutine gets is the Go scheduler's choice, not the
// caller's. The simulator therefore pins its main goroutine to the main thread at start
// (PinMain: every ordinary call runs there, after whatever ran before) and runs chosen
// calls on a thread created for that one call (OnColdThread).
//
// Why a fresh thread is cold: with the main goroutine locked to its thread, the runtime
// creates every further thread from its template thread, which is started by the first
// LockOSThread - before any library code has run - and threads inherit the vector state of
// the thread that clones them. A goroutine that ends while locked takes its thread with
// it, so a thread that served one cold call is never reused.

// PinMain locks the calling goroutine (the program's main goroutine, from an init
// function or the top of main) to its OS thread for the life of the process.
func PinMain() { runtime.LockOSThread() }

// OnColdThread runs f on an OS thread that has never executed library code and that is
// destroyed afterwards. A panic in f is re-raised in the caller with its original value.
func OnColdThread(f func()) {
	var pv interface{}
	panicked := false
	done := make(chan struct{})
	go func() {
		runtime.LockOSThread() // never unlocked: the thread ends with this goroutine
		defer close(done)
		defer func() {
			if r := recover(); r != nil {
				pv, panicked = r, true
			}
		}()
		debug.SetPanicOnFault(true)
		f()
	}()
	<-done
	if panicked {
		panic(pv)
	}
}

// On runs f on a cold thread when cold is set, else directly.
func On(cold bool, f func()) {
	if cold {
		OnColdThread(f)
		return
	}
	f()
}

package props

import (
	"bufio"
	"debug/elf"
	"encoding/json"
	"fmt"
	"os"
	"os/exec"
	"runtime"
	"sort"
	"strings"
	"syscall"
	"time"
	"unsafe"
)

// L3: a ptrace scheduler that decides interleavings at machine-instruction granularity
// inside the library (in particular inside the assembly routines, which neither the Go
// scheduler nor the race detector can split or see into).

type textRange struct {
	lo, hi uint64
	name   string
}

var l3Text []textRange

// l3Data: writable data symbols of the library (package-level variables, and static
// data of its assembly files, which carry bare names). Watching them during the
// calibration run tells after which instructions package-level memory changed; those
// are the preemption points worth trying first.
var l3Data []textRange

// l3LoadText reads the module's text symbol ranges from this executable (the tracee is
// the same binary).
func l3LoadText() error {
	if l3Text != nil {
		return nil
	}
	f, err := elf.Open("/proc/self/exe")
	if err != nil {
		return err
	}
	defer f.Close()
	syms, err := f.Symbols()
	if err != nil {
		return err
	}
	for _, s := range syms {
		if elf.ST_TYPE(s.Info) == elf.STT_OBJECT && s.Size > 0 && int(s.Section) < len(f.Sections) && s.Section > 0 &&
			f.Sections[s.Section].Flags&elf.SHF_WRITE != 0 && !strings.HasSuffix(s.Name, ".inittask") {
			lib := strings.HasPrefix(s.Name, "github.com/bilibili/smgo/")
			bare := elf.ST_BIND(s.Info) == elf.STB_LOCAL && !strings.ContainsAny(s.Name, "./")
			if lib || bare {
				l3Data = append(l3Data, textRange{s.Value, s.Value + s.Size, s.Name})
			}
		}
		if elf.ST_TYPE(s.Info) == elf.STT_FUNC && strings.HasPrefix(s.Name, "github.com/bilibili/smgo/") && s.Size > 0 {
			l3Text = append(l3Text, textRange{s.Value, s.Value + s.Size, strings.TrimSuffix(strings.TrimPrefix(s.Name, "github.com/bilibili/smgo/"), ".abi0")})
		}
	}
	sort.Slice(l3Text, func(i, j int) bool { return l3Text[i].lo < l3Text[j].lo })
	if len(l3Text) == 0 {
		return fmt.Errorf("no library text symbols found")
	}
	return nil
}

func l3Lookup(pc uint64) (string, uint64, bool) {
	i := sort.Search(len(l3Text), func(i int) bool { return l3Text[i].hi > pc })
	if i < len(l3Text) && pc >= l3Text[i].lo {
		return l3Text[i].name, pc - l3Text[i].lo, true
	}
	return "", 0, false
}

type l3Outcome struct {
	Verdict   *l3Verdict
	Skip      string
	Crash     string // tracee died
	Inconcl   string // tracer lost sync / watchdog: never a violation
	NA, NB    int    // library instructions executed by A (B) up to its preemption / end
	PreemptAt string // symbol+offset where A was parked
	Preempt2  string
	Steps     int // single steps taken
	AEnded    bool
	BWaited   bool // B did not come back while A was parked (it waits for something A holds): A was let go first
	// GlobalWrites: library-instruction counts after which the library's package-level
	// data had changed (calibration runs only)
	GlobalWrites []int
	GlobalNames  []string
}

const (
	l3Begin = 1
	l3End   = 2
)

// vmRead copies memory of the traced process (process_vm_readv).
func vmRead(pid int, addr uint64, buf []byte) bool {
	if len(buf) == 0 {
		return true
	}
	local := syscall.Iovec{Base: &buf[0]}
	local.SetLen(len(buf))
	remote := [2]uintptr{uintptr(addr), uintptr(len(buf))}
	n, _, e := syscall.Syscall6(310, uintptr(pid), uintptr(unsafe.Pointer(&local)), 1, uintptr(unsafe.Pointer(&remote)), 1, 0)
	return e == 0 && int(n) == len(buf)
}

// l3DataHash digests the library's writable data in the traced process; changed names
// are reported through which.
func l3DataHash(pid int, prev []uint64) (cur []uint64) {
	cur = make([]uint64, len(l3Data))
	buf := make([]byte, 0, 4096)
	for i, d := range l3Data {
		n := int(d.hi - d.lo)
		if n > 1<<16 {
			n = 1 << 16
		}
		if cap(buf) < n {
			buf = make([]byte, n)
		}
		b := buf[:n]
		if !vmRead(pid, d.lo, b) {
			continue
		}
		h := uint64(0xcbf29ce484222325)
		for _, x := range b {
			h = (h ^ uint64(x)) * 0x100000001b3
		}
		cur[i] = h
	}
	return cur
}

// wait4 retries on EINTR (the Go runtime signals its own threads; syscall.Wait4 does not restart).
func wait4(pid int, st *syscall.WaitStatus) (int, error) {
	for {
		w, err := syscall.Wait4(pid, st, syscall.WALL, nil)
		if err == syscall.EINTR {
			continue
		}
		return w, err
	}
}

type l3Tracer struct {
	pid     int
	tid     [2]int // client threads
	atBegin [2]bool
	ended   [2]bool
	exited  bool
	steps   int
	dead    string
	holding bool         // while set, non-client threads that stop with SIGSTOP are kept stopped
	held    map[int]bool // threads currently held
}

// handleOther deals with any stop that is not the event the caller is waiting for.
// It returns (client, kind) when the stop was one of our markers.
func (t *l3Tracer) handle(wpid int, st syscall.WaitStatus) (client int, kind uint64, isMarker bool) {
	switch {
	case st.Exited() || st.Signaled():
		if wpid == t.pid {
			t.exited = true
		}
		return
	case !st.Stopped():
		return
	}
	sig := st.StopSignal()
	if sig == syscall.SIGTRAP && st.TrapCause() == syscall.PTRACE_EVENT_CLONE {
		syscall.PtraceCont(wpid, 0)
		return
	}
	if sig == syscall.SIGSTOP { // initial stop of a new thread, or our own hold request
		if t.holding && wpid != t.tid[0] && wpid != t.tid[1] {
			t.held[wpid] = true
			return
		}
		syscall.PtraceCont(wpid, 0)
		return
	}
	if sig == syscall.SIGTRAP {
		var regs syscall.PtraceRegs
		if err := syscall.PtraceGetRegs(wpid, &regs); err == nil && regs.Rax == l3Magic {
			var b [1]byte
			if _, err := syscall.PtracePeekData(wpid, uintptr(regs.Rip-1), b[:]); err == nil && b[0] == 0xCC {
				c := int(regs.Rcx & 1)
				t.tid[c] = wpid
				return c, regs.Rbx, true
			}
		}
		syscall.PtraceCont(wpid, 0) // a stray trap: swallow
		return
	}
	// any other signal: deliver it
	syscall.PtraceCont(wpid, int(sig))
	return
}

// l3Run executes one experiment: A is parked after k library instructions (k<=0:
// calibration, A is stepped to its end and counted), then B runs (entirely, or for k2
// library instructions after which A finishes first), then the rest.
func l3Run(script *c17l3Script, k, k2, calibClient int) (out l3Outcome) {
	if err := l3LoadText(); err != nil {
		out.Inconcl = "elf: " + err.Error()
		return
	}
	raw, _ := json.Marshal(script)
	runtime.LockOSThread()
	defer runtime.UnlockOSThread()
	cmd := exec.Command("/proc/self/exe", "-l3tracee", string(raw))
	cmd.Env = append(os.Environ(), "GODEBUG=asyncpreemptoff=1", "GOMAXPROCS=4")
	cmd.SysProcAttr = &syscall.SysProcAttr{Ptrace: true}
	stdout, err := cmd.StdoutPipe()
	if err != nil {
		out.Inconcl = err.Error()
		return
	}
	var stderr strings.Builder
	cmd.Stderr = &stderr
	if err := cmd.Start(); err != nil {
		out.Inconcl = "start: " + err.Error()
		return
	}
	t := &l3Tracer{pid: cmd.Process.Pid, held: map[int]bool{}}
	lines := make(chan string, 4)
	go func() {
		sc := bufio.NewScanner(stdout)
		sc.Buffer(make([]byte, 1<<20), 1<<20)
		for sc.Scan() {
			lines <- sc.Text()
		}
		close(lines)
	}()
	deadline := time.Now().Add(20 * time.Second)
	// a real watchdog: blocking waits are only interrupted by events, so make one
	wdFired := false
	wdDiag := ""
	wd := time.AfterFunc(25*time.Second, func() {
		wdFired = true
		if os.Getenv("VERIF_L3_DEBUG") != "" {
			wdDiag = l3Diag(cmd.Process.Pid)
		}
		syscall.Kill(cmd.Process.Pid, syscall.SIGKILL)
	})
	defer wd.Stop()
	// reapAll consumes the exit notifications of every thread of the traced process: a
	// traced thread stays a zombie until its tracer waits for it, and the thread-group
	// leader cannot be reaped before its siblings are gone.
	reapAll := func() {
		for {
			var st syscall.WaitStatus
			wpid, err := wait4(-1, &st)
			if err != nil {
				break
			}
			if wpid == t.pid && (st.Exited() || st.Signaled()) {
				t.exited = true
			} else if st.Stopped() {
				syscall.PtraceCont(wpid, 0) // let a dying thread proceed to its exit
			}
		}
		cmd.Wait()
	}
	kill := func(why string) {
		syscall.Kill(t.pid, syscall.SIGKILL)
		out.Inconcl = why + wdDiag
		reapAll()
	}
	var st syscall.WaitStatus
	if _, err := wait4(t.pid, &st); err != nil || !st.Stopped() {
		kill("tracee did not stop at exec")
		return
	}
	syscall.PtraceSetOptions(t.pid, syscall.PTRACE_O_TRACECLONE|0x100000 /* PTRACE_O_EXITKILL */)
	syscall.PtraceCont(t.pid, 0)

	// waitFor pumps events until cond() holds; returns false on tracee exit / watchdog
	pump := func(cond func() bool) bool {
		for !cond() {
			if t.exited {
				return false
			}
			if time.Now().After(deadline) {
				return false
			}
			wpid, err := wait4(-1, &st)
			if err != nil {
				return false
			}
			c, kind, ok := t.handle(wpid, st)
			if ok {
				switch kind {
				case l3Begin:
					t.atBegin[c] = true // held: not continued
				case l3End:
					t.ended[c] = true
					syscall.PtraceCont(wpid, 0)
				}
			}
		}
		return true
	}
	// pumpFor is pump with its own time limit, polling instead of blocking (a blocking wait
	// only returns on an event, and a client that is blocked produces none).
	pumpFor := func(limit time.Duration, cond func() bool) bool {
		until := time.Now().Add(limit)
		for !cond() {
			if t.exited || time.Now().After(until) || time.Now().After(deadline) {
				return false
			}
			wpid, err := syscall.Wait4(-1, &st, syscall.WALL|syscall.WNOHANG, nil)
			if err == syscall.EINTR {
				continue
			}
			if err != nil {
				return false
			}
			if wpid == 0 {
				time.Sleep(200 * time.Microsecond)
				continue
			}
			c, kind, ok := t.handle(wpid, st)
			if ok {
				switch kind {
				case l3Begin:
					t.atBegin[c] = true
				case l3End:
					t.ended[c] = true
					syscall.PtraceCont(wpid, 0)
				}
			}
		}
		return true
	}
	var releaseOthers func()
	finish := func() {
		// let everything run to the end and collect the verdict
		releaseOthers()
		ok := pump(func() bool { return t.exited })
		if !ok && !t.exited {
			kill("watchdog while finishing")
			return
		}
		reapAll()
		var last string
		for l := range lines {
			last = l
		}
		if strings.HasPrefix(last, `{"skip"`) {
			out.Skip = last
			return
		}
		var v l3Verdict
		if err := json.Unmarshal([]byte(last), &v); err != nil {
			if wdFired {
				// the tracer's own watchdog killed the traced process (a client that never came
				// back, e.g. blocked behind the parked one): no verdict, not a death of its own
				out.Inconcl = "watchdog: the traced process was killed after 25 s" + wdDiag
				return
			}
			out.Crash = "tracee produced no verdict; stderr: " + tail(stderr.String(), 1500)
			return
		}
		out.Verdict = &v
	}
	if !pump(func() bool { return t.atBegin[0] && t.atBegin[1] }) {
		if t.exited {
			reapAll()
			var last string
			for l := range lines {
				last = l
			}
			if strings.HasPrefix(last, `{"skip"`) {
				out.Skip = last
				return
			}
			out.Crash = "tracee exited before both clients reached their start marker; stderr: " + tail(stderr.String(), 1500)
			return
		}
		kill("watchdog before start markers")
		return
	}
	// While a client is being single-stepped (which takes ~10^4 times longer than native
	// execution) every other thread of the traced process is held, in particular the
	// runtime's monitor thread: otherwise it sees a goroutine "running too long" and
	// requests a cooperative preemption, which makes the next Go function prologue detour
	// through the runtime and execute again, so that library instruction counts would
	// depend on wall-clock timing.
	// holdOthers freezes the runtime's monitor thread (the one sleeping in nanosleep) and
	// nothing else: the other threads must stay free so that a client which the
	// scheduler deschedules (a preemption request that was already pending) can be put
	// back on its thread instead of waiting forever.
	holdOthers := func() bool {
		t.holding = true
		for try := 0; try < 60; try++ {
			ents, err := os.ReadDir(fmt.Sprintf("/proc/%d/task", t.pid))
			if err != nil {
				return false
			}
			want := map[int]bool{}
			for _, e := range ents {
				var tid int
				fmt.Sscan(e.Name(), &tid)
				if tid == 0 || tid == t.tid[0] || tid == t.tid[1] || t.held[tid] {
					continue
				}
				sc, _ := os.ReadFile(fmt.Sprintf("/proc/%d/task/%d/syscall", t.pid, tid))
				if strings.HasPrefix(string(sc), "35 ") { // nanosleep: runtime.usleep, i.e. sysmon
					if syscall.Tgkill(t.pid, tid, syscall.SIGSTOP) == nil {
						want[tid] = true
					}
				}
			}
			if len(want) > 0 {
				return pump(func() bool {
					for tid := range want {
						if !t.held[tid] {
							return false
						}
					}
					return true
				})
			}
			time.Sleep(500 * time.Microsecond)
		}
		return true // no monitor thread found sleeping: carry on (instruction counts may then vary slightly)
	}
	releaseOthers = func() {
		t.holding = false
		for tid := range t.held {
			syscall.PtraceCont(tid, 0)
			delete(t.held, tid)
		}
	}
	// stepN single-steps client c until it has executed n library instructions and the
	// next PC is inside library text again (never park inside the runtime), or until it
	// reaches its end marker. n<=0: step to the end.
	var dataPrev []uint64
	watch := k <= 0 && len(l3Data) > 0
	stepN := func(c, n int) (count int, where string, ended bool, ok bool) {
		tid := t.tid[c]
		if watch {
			dataPrev = l3DataHash(t.pid, nil)
		}
		for {
			if time.Now().After(deadline) {
				return count, where, false, false
			}
			if err := syscall.PtraceSingleStep(tid); err != nil {
				return count, where, false, false
			}
			t.steps++
			for {
				wpid, err := wait4(-1, &st)
				if err != nil {
					return count, where, false, false
				}
				if wpid != tid {
					cc, kind, isM := t.handle(wpid, st)
					if isM && kind == l3End {
						t.ended[cc] = true
						syscall.PtraceCont(wpid, 0)
					} else if isM && kind == l3Begin {
						t.atBegin[cc] = true
					}
					if t.exited {
						return count, where, false, false
					}
					continue
				}
				break
			}
			if st.Exited() || st.Signaled() {
				t.exited = t.exited || tid == t.pid
				return count, where, false, false
			}
			if !st.Stopped() {
				continue
			}
			sig := st.StopSignal()
			if sig != syscall.SIGTRAP {
				// a real signal for this thread (e.g. SIGSEGV in a broken library): deliver it and stop stepping
				syscall.PtraceCont(tid, int(sig))
				return count, where, false, false
			}
			if st.TrapCause() == syscall.PTRACE_EVENT_CLONE {
				continue
			}
			var regs syscall.PtraceRegs
			if err := syscall.PtraceGetRegs(tid, &regs); err != nil {
				return count, where, false, false
			}
			if regs.Rax == l3Magic {
				var b [1]byte
				if _, err := syscall.PtracePeekData(tid, uintptr(regs.Rip-1), b[:]); err == nil && b[0] == 0xCC && regs.Rbx == l3End {
					t.ended[c] = true
					syscall.PtraceCont(tid, 0)
					return count, where, true, true
				}
			}
			if name, off, in := l3Lookup(regs.Rip); in {
				// the instruction at Rip is a library instruction about to execute; the one
				// just executed is counted when it was inside library text (tracked via 'where')
				count++
				where = fmt.Sprintf("%s+%#x", name, off)
				if watch && len(out.GlobalWrites) < 256 {
					cur := l3DataHash(t.pid, dataPrev)
					for i := range cur {
						if cur[i] != dataPrev[i] {
							out.GlobalWrites = append(out.GlobalWrites, count)
							if len(out.GlobalNames) < 8 {
								out.GlobalNames = append(out.GlobalNames, l3Data[i].name)
							}
							break
						}
					}
					dataPrev = cur
				}
				if n > 0 && count >= n {
					return count, where, false, true
				}
			}
		}
	}
	if !holdOthers() {
		kill("could not hold the other threads")
		return
	}
	if k <= 0 { // calibration: count one client's library instructions, then let everything finish
		n, lastAt, ended, ok := stepN(calibClient, 0)
		out.PreemptAt = lastAt
		releaseOthers()
		out.NA, out.AEnded, out.Steps = n, ended, t.steps
		if !ok && !ended {
			if t.exited {
				finish()
				return
			}
			kill(fmt.Sprintf("lost sync while calibrating (after %d library instructions, last at %s, watchdog=%v)", n, out.PreemptAt, wdFired))
			return
		}
		syscall.PtraceCont(t.tid[1-calibClient], 0)
		finish()
		return
	}
	n, where, ended, ok := stepN(0, k)
	out.NA, out.PreemptAt, out.AEnded = n, where, ended
	if k2 <= 0 {
		releaseOthers()
	}
	if !ok && !ended {
		if t.exited {
			out.Steps = t.steps
			finish()
			return
		}
		// A received a real signal (delivered): let the tracee die or finish
		syscall.PtraceCont(t.tid[1], 0)
		out.Steps = t.steps
		finish()
		return
	}
	// A is parked (or already done). Now B.
	if k2 > 0 {
		n2, where2, ended2, ok2 := stepN(1, k2)
		out.NB, out.Preempt2 = n2, where2
		releaseOthers()
		if ok2 && !ended2 && !ended {
			// B parked too: A finishes first, then B
			syscall.PtraceCont(t.tid[0], 0)
			if !pump(func() bool { return t.ended[0] }) && !t.exited {
				kill("watchdog while A finishes")
				return
			}
			syscall.PtraceCont(t.tid[1], 0)
			out.Steps = t.steps
			finish()
			return
		}
		if !ended2 && ok2 {
			syscall.PtraceCont(t.tid[1], 0)
		}
	} else {
		syscall.PtraceCont(t.tid[1], 0)
	}
	// B's call takes microseconds to milliseconds natively. If it has not come back after two
	// seconds it is waiting for something the parked client holds (a mutex, a sync.Once in
	// progress): that is a legal schedule - B waits, A finishes, B carries on - so A is let go.
	if !pumpFor(2*time.Second, func() bool { return t.ended[1] }) && !t.exited && !ended {
		out.BWaited = true
		syscall.PtraceCont(t.tid[0], 0)
		ended = true // A has been resumed
	}
	if !pump(func() bool { return t.ended[1] }) && !t.exited {
		kill("watchdog while B runs")
		return
	}
	if !ended && !t.exited {
		syscall.PtraceCont(t.tid[0], 0)
	}
	out.Steps = t.steps
	finish()
	return
}

// l3Diag describes what every thread of a stuck traced process is doing (debug only).
func l3Diag(pid int) string {
	f, err := elf.Open("/proc/self/exe")
	if err != nil {
		return ""
	}
	defer f.Close()
	syms, _ := f.Symbols()
	sort.Slice(syms, func(i, j int) bool { return syms[i].Value < syms[j].Value })
	lookup := func(pc uint64) string {
		i := sort.Search(len(syms), func(i int) bool { return syms[i].Value > pc })
		if i > 0 && pc < syms[i-1].Value+syms[i-1].Size {
			return fmt.Sprintf("%s+%#x", syms[i-1].Name, pc-syms[i-1].Value)
		}
		return fmt.Sprintf("%#x", pc)
	}
	var b strings.Builder
	ents, _ := os.ReadDir(fmt.Sprintf("/proc/%d/task", pid))
	for _, e := range ents {
		sc, _ := os.ReadFile(fmt.Sprintf("/proc/%d/task/%s/syscall", pid, e.Name()))
		st, _ := os.ReadFile(fmt.Sprintf("/proc/%d/task/%s/stat", pid, e.Name()))
		fields := strings.Fields(string(sc))
		where := ""
		if len(fields) >= 2 {
			var pc uint64
			fmt.Sscanf(fields[len(fields)-1], "0x%x", &pc)
			where = lookup(pc)
		}
		state := ""
		if sf := strings.Fields(string(st)); len(sf) > 2 {
			state = sf[2]
		}
		fmt.Fprintf(&b, " [tid %s state %s syscall %s at %s]", e.Name(), state, strings.Join(fields[:min(len(fields), 1)], ""), where)
	}
	return b.String()
}

// l3Request is what an isolated tracer process is asked to do.
type l3Request struct {
	Script *c17l3Script
	K, K2  int
	Calib  int
}

// L3ExpMain runs one experiment in this (short-lived) process and prints the outcome.
// Keeping every tracer in its own process contains any hang of the ptrace machinery:
// the worker kills the whole process group on timeout and counts the experiment as
// inconclusive.
func L3ExpMain(reqJSON string) {
	var rq l3Request
	if err := json.Unmarshal([]byte(reqJSON), &rq); err != nil || rq.Script == nil {
		fmt.Println(`{"Inconcl":"bad request"}`)
		return
	}
	o := l3Run(rq.Script, rq.K, rq.K2, rq.Calib)
	b, _ := json.Marshal(o)
	fmt.Println(string(b))
}

// l3RunIsolated executes l3Run in a child process with a hard timeout.
func l3RunIsolated(script *c17l3Script, k, k2, calib int) (out l3Outcome) {
	rq, _ := json.Marshal(l3Request{script, k, k2, calib})
	cmd := exec.Command("/proc/self/exe", "-l3exp", string(rq))
	cmd.SysProcAttr = &syscall.SysProcAttr{Setpgid: true}
	var so, se strings.Builder
	cmd.Stdout, cmd.Stderr = &so, &se
	if err := cmd.Start(); err != nil {
		out.Inconcl = "cannot start tracer: " + err.Error()
		return
	}
	done := make(chan error, 1)
	go func() { done <- cmd.Wait() }()
	select {
	case <-done:
	case <-time.After(60 * time.Second):
		syscall.Kill(-cmd.Process.Pid, syscall.SIGKILL)
		<-done
		out.Inconcl = "tracer process exceeded its time limit"
		return
	}
	line := strings.TrimSpace(so.String())
	if i := strings.LastIndex(line, "\n"); i >= 0 {
		line = line[i+1:]
	}
	if err := json.Unmarshal([]byte(line), &out); err != nil {
		out = l3Outcome{Inconcl: "tracer produced no outcome: " + tail(se.String(), 300)}
	}
	return
}

func tail(s string, n int) string {
	if len(s) > n {
		return s[len(s)-n:]
	}
	return s
}

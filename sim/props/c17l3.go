package props

import (
	"encoding/json"
	"fmt"
	"os"

	"verif/sim/core"
)

// C17 / L3 — interleavings at machine-instruction granularity inside the library,
// decided by a ptrace scheduler (l3tracer_linux.go). Two client threads A and B share a
// cipher object and read-only buffers; A is parked after k library instructions (k drawn
// from the PRNG as a fraction of the measured instruction count of A's call), B runs
// its whole call (or is itself parked after k2 and A finishes first), then the rest.
// Oracle: each client's result equals the serial pre-pass result computed in the traced
// process on twin objects; shared buffers equal their snapshots.

type c17l3 struct{}

func init()              { core.Register(c17l3{}) }
func (c17l3) ID() string { return "C17L3" }

func (c17l3) Plan(tier string) core.Plan {
	if tier == "thorough" {
		return core.Plan{Seeded: 6000}
	}
	return core.Plan{Seeded: 480}
}

func (c17l3) Meta() core.Meta {
	return core.Meta{
		Level: "exploration",
		Rule: "L3: seeded experiments with two client threads of a traced process: pairs of {Seal, Open, Encrypt, Decrypt, NewCipher} on one shared AEAD/Block and shared key, nonce, aad, plaintext and ciphertext buffers (incl. the same ciphertext opened by both); client A is single-stepped and parked after k library instructions (k uniform over the measured length of its call), client B then runs to completion or is parked after k2 and A completes first. " +
			"non-trivial = A was parked strictly inside its call; distinct = distinct (op pair, length classes, preemption symbol+offset); distinct_interleavings = distinct (op pair, lengths, k, k2)",
		Components: map[string]string{"sm4 amd64 assembly (sealAsm, openAsm, cryptoBlockAsm, expandKeyAsm) and Go glue": "real, executed natively under ptrace single-step", "caller threads": "real OS threads, scheduled by the ptrace tracer (one runs at a time)",
			"oracle": "serial pre-pass in the traced process on twin objects; snapshots of shared buffers"},
		Assumptions: []string{"one or two preemptions per experiment", "preemption points are library instructions (PC inside the module's text); instructions in the Go runtime are stepped through but never chosen",
			"a traced process that cannot be driven (lost sync, watchdog) is counted inconclusive, never a violation"},
		FaultKinds: []string{"preempt-in-asm", "preempt-in-go-glue", "double-preemption", "same-ciphertext-both-open", "history:open-forged", "preempt-after-global-write"},
		ProbeNames: []string{"preempted-inside:sm4.sealAsm", "preempted-inside:sm4.openAsm", "preempted-inside:sm4.cryptoBlockAsm", "preempted-inside:sm4.expandKeyAsm", "inconclusive", "calibrations"},
		StepUnit:   "single-stepped instructions",
	}
}

var l3Kinds = []string{"Seal", "Open", "Encrypt", "Decrypt", "NewCipher"}

func (c17l3) Generate(idx int, r *core.Rand, tier string) core.Script {
	w := r.Split("workload")
	sc := r.Split("sched")
	s := &c17l3Script{AEAD: aeadSpec{Key: hx(w.Bytes(16)), NonceSize: 12, TagSize: 16}, Seed: w.Uint64(), K2Pm: -1}
	if w.Chance(1, 4) {
		s.AEAD.NonceSize = w.PickInt(8, 13, 16, 33)
	}
	if w.Chance(1, 4) {
		s.AEAD.TagSize = w.Range(12, 16)
	}
	gen := func() l3Op {
		op := l3Op{Kind: l3Kinds[w.Weighted(5, 5, 1, 1, 1)], PtLen: w.PickInt(0, 1, 15, 16, 17, 31, 32, 33, 64, 65, 100, 129, 257), AadLen: w.PickInt(0, 0, 5, 16, 20), Msg: w.Intn(2), Nonce: w.Intn(2)}
		op.Dst = dstSpec{Mode: "nil"}
		if w.Chance(1, 3) {
			op.Dst = dstSpec{Mode: "fresh", Len: w.PickInt(0, 3), Spare: op.PtLen + 16 + w.PickInt(0, 8)}
		}
		return op
	}
	s.A, s.B = gen(), gen()
	if w.Chance(1, 2) { // identical calls on the same buffers
		s.B.Kind, s.B.Msg, s.B.Nonce = s.A.Kind, s.A.Msg, s.A.Nonce
	}
	if w.Chance(1, 3) { // history on the shared objects before the clients start
		for i := w.Range(1, 2); i > 0; i-- {
			s.Prelude = append(s.Prelude, []string{"open-forged", "open-forged", "open-ok", "seal"}[w.Intn(4)])
		}
	}
	s.KPm = sc.Intn(1000)
	if sc.Chance(1, 4) {
		s.K2Pm = sc.Intn(1000)
	}
	return s
}

func (c17l3) Decode(raw json.RawMessage) (core.Script, error) {
	var s c17l3Script
	s.K2Pm = -1
	if err := json.Unmarshal(raw, &s); err != nil {
		return nil, err
	}
	return &s, nil
}

type l3CalibEntry struct {
	n      int
	writes []int
	names  []string
}

var l3Calib = map[string]l3CalibEntry{}

func l3Class(s *c17l3Script, op l3Op) string {
	msgLen, aad := s.A.PtLen, s.A.AadLen
	if op.Msg&1 == 1 {
		msgLen, aad = s.B.PtLen, s.B.AadLen
	}
	return fmt.Sprint(op.Kind, msgLen, aad, s.AEAD.NonceSize, s.AEAD.TagSize, op.Dst.Mode, op.Dst.Len, op.Dst.Spare, s.Prelude)
}

// l3Calibrate measures how many library instructions client 0 (A) or 1 (B) executes in
// its call, in the very world of this script.
func l3Calibrate(s *c17l3Script, client int, res *core.Result) (int, string) {
	e, why := l3CalibrateFull(s, client, res)
	return e.n, why
}

func l3CalibrateFull(s *c17l3Script, client int, res *core.Result) (l3CalibEntry, string) {
	op := s.A
	if client == 1 {
		op = s.B
	}
	key := l3Class(s, op)
	if e, ok := l3Calib[key]; ok {
		return e, ""
	}
	o := l3RunIsolated(s, 0, 0, client)
	res.Steps += o.Steps
	res.Probes["calibrations"]++
	if o.Inconcl != "" || o.Skip != "" || o.Crash != "" || !o.AEnded || o.NA == 0 {
		if os.Getenv("VERIF_L3_DEBUG") != "" {
			raw, _ := json.Marshal(s)
			fmt.Fprintf(os.Stderr, "L3DEBUG calibration failed client=%d %s script=%s\n", client, o.Inconcl, raw)
		}
		return l3CalibEntry{}, fmt.Sprintf("calibration failed: inconcl=%q skip=%q crash=%q ended=%v n=%d", o.Inconcl, o.Skip, o.Crash, o.AEnded, o.NA)
	}
	e := l3CalibEntry{o.NA, o.GlobalWrites, o.GlobalNames}
	l3Calib[key] = e
	return e, ""
}

func (c17l3) Execute(sc core.Script, keep bool) *core.Result {
	s := sc.(*c17l3Script)
	res := core.NewResult()
	log := &core.Log{Keep: keep}
	defer func() {
		res.EventHash = log.Hash()
		res.LogLines = append(log.Lines, res.LogLines...)
	}()
	if !AsmAvailable() {
		res.Fingerprint = "skip-no-asm"
		log.Add("skipped: accelerated path not available")
		return res
	}
	k, k2 := s.K, s.K2
	if k <= 0 {
		ce, why := l3CalibrateFull(s, 0, res)
		n := ce.n
		if len(ce.writes) > 0 {
			res.Probes["global-write-points"] += len(ce.writes)
			res.Unclaimed = append(res.Unclaimed, "L3: "+s.A.Kind+" writes package-level data: "+fmt.Sprint(ce.names))
		}
		if n == 0 {
			res.Probes["inconclusive"]++
			res.Unclaimed = append(res.Unclaimed, "L3 inconclusive: "+why)
			log.Add("inconclusive: %s", why)
			res.Fingerprint = "inconclusive"
			return res
		}
		k = 1 + s.KPm*n/1000
		if len(ce.writes) > 0 && s.KPm%2 == 0 {
			// steer: park A shortly after an instruction that changed package-level data
			k = ce.writes[(s.KPm/2)%len(ce.writes)] + 1 + (s.KPm/7)%24
			res.Faults["preempt-after-global-write"]++
		}
		if k >= n {
			k = n - 1
		}
		if k < 1 {
			k = 1
		}
	}
	if k2 <= 0 && s.K2Pm >= 0 {
		n2, why := l3Calibrate(s, 1, res)
		if n2 == 0 {
			res.Probes["inconclusive"]++
			log.Add("inconclusive: %s", why)
			res.Fingerprint = "inconclusive"
			return res
		}
		k2 = 1 + s.K2Pm*n2/1000
		if k2 >= n2 {
			k2 = n2 - 1
		}
		if k2 < 1 {
			k2 = 1
		}
	}
	o := l3RunIsolated(s, k, k2, 0)
	res.Steps += o.Steps
	if o.Crash != "" {
		// a death of the traced process only counts if it happens again: under heavy load
		// a tracee can be lost for reasons that have nothing to do with the library
		o2 := l3RunIsolated(s, k, k2, 0)
		res.Steps += o2.Steps
		if o2.Crash == "" {
			res.Unclaimed = append(res.Unclaimed, "L3: a traced process died once and not on retry")
			o = o2
		}
	}
	if o.BWaited {
		res.Probes["b-waited-for-parked-a"]++
	}
	pair := s.A.Kind + "+" + s.B.Kind
	// The event log holds only what a correct library determines: which calls ran, whether
	// A was parked inside its call, and the verdict. Instruction counts and the exact
	// preemption address are diagnostics (coverage fingerprint, violation detail): a correct
	// library may legitimately execute a varying number of its own instructions (a sync.Pool
	// whose New function runs or not depending on which P a goroutine happens to be on).
	log.Add("%s parked=%v double=%v", pair, !o.AEnded && o.PreemptAt != "", k2 > 0 && o.Preempt2 != "")
	if keep {
		res.LogLines = append(res.LogLines, fmt.Sprintf("(diagnostic) k=%d k2=%d parkedA=%s parkedB=%s", k, k2, o.PreemptAt, o.Preempt2))
	}
	res.Interleave = fmt.Sprint(pair, s.A.PtLen, s.B.PtLen, s.A.Msg, s.B.Msg, k, k2)
	res.Fingerprint = core.Fp(pair, core.LenClass(s.A.PtLen), core.LenClass(s.B.PtLen), o.PreemptAt, fmt.Sprint(k2 > 0))
	sym := o.PreemptAt
	if i := indexByte(sym, '+'); i >= 0 {
		sym = sym[:i]
	}
	if !o.AEnded && o.PreemptAt != "" {
		res.Nontrivial = true
		res.Probes["preempted-inside:"+sym]++
		if len(sym) > 4 && (sym[len(sym)-3:] == "Asm" || contains(sym, "Asm")) {
			res.Faults["preempt-in-asm"]++
		} else {
			res.Faults["preempt-in-go-glue"]++
		}
	}
	if k2 > 0 && o.Preempt2 != "" {
		res.Faults["double-preemption"]++
	}
	for _, st := range s.Prelude {
		if st == "open-forged" {
			res.Faults["history:open-forged"]++
		}
	}
	if s.A.Kind == "Open" && s.B.Kind == "Open" && s.A.Msg&1 == s.B.Msg&1 {
		res.Faults["same-ciphertext-both-open"]++
	}
	viol := func(class, role, detail string) {
		res.Violation = &core.Violation{Class: class, Op: pair, Role: role, Param: "L3", Detail: detail}
		log.Add("VIOLATION %s %s", class, role)
	}
	switch {
	case o.Inconcl != "":
		res.Probes["inconclusive"]++
		res.Unclaimed = append(res.Unclaimed, "L3 inconclusive: "+o.Inconcl)
		log.Add("inconclusive: %s", o.Inconcl)
	case o.Skip != "":
		log.Add("skip: %s", o.Skip)
	case o.Crash != "":
		viol("crash", "tracee", fmt.Sprintf("traced process died with A parked at %s (k=%d): %s", o.PreemptAt, k, o.Crash))
	case o.Verdict != nil:
		v := o.Verdict
		log.Add("verdict a=%v b=%v shared=%v", v.AOK, v.BOK, v.SharedOK)
		switch {
		case !v.AOK:
			viol("wrong-result", "preempted-client", fmt.Sprintf("client A (%s, parked at %s after %d library instructions while B ran %s) returned %s, alone it returns %s", s.A.Kind, o.PreemptAt, k, s.B.Kind, v.A, v.WantA))
		case !v.BOK:
			viol("wrong-result", "running-client", fmt.Sprintf("client B (%s, run while A was parked in %s at %s) returned %s, alone it returns %s", s.B.Kind, s.A.Kind, o.PreemptAt, v.B, v.WantB))
		case !v.SharedOK:
			viol("input-modified", v.Damaged, fmt.Sprintf("shared read-only buffer %s changed", v.Damaged))
		}
	}
	return res
}

func indexByte(s string, c byte) int {
	for i := 0; i < len(s); i++ {
		if s[i] == c {
			return i
		}
	}
	return -1
}

func contains(s, sub string) bool {
	for i := 0; i+len(sub) <= len(s); i++ {
		if s[i:i+len(sub)] == sub {
			return true
		}
	}
	return false
}

func (c17l3) Shrinks(sc core.Script) []core.Script {
	s := sc.(*c17l3Script)
	cp := func() *c17l3Script {
		c := *s
		return &c
	}
	var out []core.Script
	if s.K2Pm >= 0 || s.K2 > 0 {
		c := cp()
		c.K2Pm, c.K2 = -1, 0
		out = append(out, c)
	}
	for _, l := range []int{0, 1, 16, 17} {
		if l < s.A.PtLen {
			c := cp()
			c.A.PtLen = l
			out = append(out, c)
		}
		if l < s.B.PtLen {
			c := cp()
			c.B.PtLen = l
			out = append(out, c)
		}
	}
	if s.A.AadLen > 0 || s.B.AadLen > 0 {
		c := cp()
		c.A.AadLen, c.B.AadLen = 0, 0
		out = append(out, c)
	}
	for i := range s.Prelude {
		c := cp()
		c.Prelude = append(append([]string{}, s.Prelude[:i]...), s.Prelude[i+1:]...)
		out = append(out, c)
	}
	if s.A.Dst.Mode != "nil" || s.B.Dst.Mode != "nil" {
		c := cp()
		c.A.Dst, c.B.Dst = dstSpec{Mode: "nil"}, dstSpec{Mode: "nil"}
		out = append(out, c)
	}
	if s.AEAD.NonceSize != 12 || s.AEAD.TagSize != 16 {
		c := cp()
		c.AEAD.NonceSize, c.AEAD.TagSize = 12, 16
		out = append(out, c)
	}
	// make the preemption point absolute, then move it toward the first failing index
	if s.K <= 0 {
		res := core.NewResult()
		if n, _ := l3Calibrate(s, 0, res); n > 0 {
			c := cp()
			c.K = 1 + s.KPm*n/1000
			if c.K >= n {
				c.K = n - 1
			}
			if c.K < 1 {
				c.K = 1
			}
			out = append(out, c)
		}
	} else {
		for _, k := range []int{s.K / 2, s.K * 3 / 4, s.K - 16, s.K - 1} {
			if k >= 1 && k < s.K {
				c := cp()
				c.K = k
				out = append(out, c)
			}
		}
	}
	return out
}

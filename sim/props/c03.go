package props

import (
	"bytes"
	"encoding/json"
	"fmt"
	"math/big"
	"sort"
	"strings"

	"github.com/bilibili/smgo/sm2"

	"verif/sim/core"
	"verif/sim/dev/wire"
	"verif/sim/ref"
)

// C03 — verification accepts exactly the signatures the standard accepts.
//
// Seam S5: what a verifier meets on a faulty or hostile wire. (a) corruption in transit
// of authentic tuples; (b) a Byzantine peer sending solved-for tuples that satisfy the
// verification equation while breaking exactly one side condition.
// Oracle: sm2ref.Verify on the delivered bytes, both directions; no panic.

type c03Script struct {
	Entry  string            `json:"entry"`           // VerifyHashed | VerifyZa | Verify
	Fields map[string]string `json:"fields"`          // pubx puby e r s (VerifyHashed); za msg / id msg for the others
	Other  map[string]string `json:"other,omitempty"` // a second authentic message, source of splices
	Muts   []wire.Mut        `json:"muts,omitempty"`
	Byz    string            `json:"byz,omitempty"` // how a Byzantine tuple was constructed (informational)
	// Before lists tuples that were delivered (and verified) earlier into the SAME receive
	// buffers: the verifier's caller reuses its buffers, as a network receive loop does.
	Before []map[string]string `json:"before,omitempty"`
}

type c03 struct{}

func init()            { core.Register(c03{}) }
func (c03) ID() string { return "C03" }

var c03Byz = []string{"valid-solved", "r=0", "s=0", "r=n", "s=n", "r+n", "s+n", "t=0", "pubx+p", "puby+p?", "offcurve", "infinity", "neg-pub", "e>=n", "x1>=n", "pubx+p/structured", "partial-sum-collision", "result-point"}

func (c03) Plan(tier string) core.Plan {
	sys := len(c03Byz) * 4
	if tier == "thorough" {
		return core.Plan{Systematic: sys, Seeded: 200000}
	}
	return core.Plan{Systematic: sys, Seeded: 12000}
}

func (c03) Meta() core.Meta {
	return core.Meta{
		Level: "exploration",
		Rule: "systematic: each Byzantine construction (" + strings.Join(c03Byz, ", ") + ") x 4 instances; seeded: authentic tuples (keys incl. boundary classes, digests solved for short r/s/t) delivered through the corrupting wire: untouched, single-bit flips in any field, byte drop/insert, truncation, extension, r/s and x/y swaps, fields spliced from a second authentic message, replays under another key; mixed with Byzantine tuples plus further corruption. " +
			"non-trivial = the delivered tuple differs from an authentic one or is a solved-for tuple; distinct = distinct (entry point, corruption kinds x fields, Byzantine kind, first failing side condition by the reference, verdict)",
		Components: map[string]string{"sm2.VerifyHashed/VerifyZa/Verify": "real", "sm3 (ZA, e for the id/message entry points)": "real", "wire and hostile peer": "stub (simulated)",
			"oracle": "sm2ref.Verify (GM/T 0003.2 B1-B7 on math/big affine arithmetic)"},
		Assumptions: []string{"sm2ref is correct (anchors)", "ids are kept below 8192 bytes (ENTL overflow is C13's question)", "error values are not judged, only the boolean and panics",
			"the equivalence over all byte strings is sampled around authentic and solved-for tuples, not enumerated"},
		FaultKinds: []string{"wire:flip", "wire:drop", "wire:insert", "wire:trunc", "wire:extend", "wire:zero", "wire:swap", "wire:splice", "wire:resplit", "byz:*", "reused-receive-buffers"},
		ProbeNames: []string{"accept-expected", "reason:length", "reason:r-range", "reason:s-range", "reason:t=0", "reason:pub-noncanonical", "reason:pub-offcurve", "reason:infinity", "reason:mismatch", "short-t-valid"},
		StepUnit:   "deliveries + verify calls",
	}
}

// authentic builds a valid tuple for the entry point by the reference signer.
func c03Authentic(entry string, w *core.Rand) map[string]string {
	for {
		priv := genPriv(w)
		d := ref.Int(priv)
		pub := ref.MulG(d)
		px, py := ref.Pad32(pub.X), ref.Pad32(pub.Y)
		f := map[string]string{"pubx": hx(px), "puby": hx(py)}
		var e []byte
		k := randScalar(w)
		switch entry {
		case "VerifyHashed":
			e = w.Bytes(32)
			if w.Chance(1, 30) { // e + x1 >= 2n: the verifier's R = (e + x1) mod n needs n taken off twice
				var x1 *big.Int
				k, x1 = extremeNonce(w)
				e = extremeE(w, x1, "")
			} else if w.Chance(1, 3) { // short t: r = t(1+d) - k
				small := smallValue(w)
				rv := new(big.Int).Add(d, big.NewInt(1))
				rv.Mul(rv, small)
				rv.Sub(rv, k)
				rv.Sub(rv, ref.MulG(k).X)
				rv.Mod(rv, ref.SM2N)
				e = ref.Pad32(rv)
			}
			f["e"] = hx(e)
		case "VerifyZa":
			za, msg := w.Bytes(32), w.Bytes(w.Len(200))
			f["za"], f["msg"] = hx(za), hx(msg)
			ee := ref.E(za, msg)
			e = ee[:]
		case "Verify":
			id, msg := w.Bytes(w.PickInt(0, 1, 16, 16, 33, 128)), w.Bytes(w.Len(200))
			f["id"], f["msg"] = hx(id), hx(msg)
			za, _ := ref.ZA(id, px, py)
			ee := ref.E(za[:], msg)
			e = ee[:]
		}
		reason, r, s := ref.SignStep(d, ref.Int(e), k)
		if reason != ref.RejNone {
			continue
		}
		f["r"], f["s"] = hx(ref.Pad32(r)), hx(ref.Pad32(s))
		return f
	}
}

// c03Canon is the GM/T 0003.5 example tuple (pubx, puby, e, r, s).
var c03Canon = [5][]byte{
	unhx("09f9df311e5421a150dd7d161e4bc5c672179fad1833fc076bb08ff356f35020"),
	unhx("ccea490ce26775a52dc6ea718cc1aa600aed05fbf35e084a6632f6072da9ad13"),
	unhx("f0b43e94ba45accaace692ed534382eb17e6ab5a19ce7b31f4486fdfc0d28640"),
	unhx("f5a03b0648d2c4630eeac513e1bb81a15944da3827d5b74143ac7eaceee720b3"),
	unhx("b1b6aa29df212fd8763182bc0d421ca1bb9038fd1f7f42d4840b69c485bbc1aa"),
}

func fits32(v *big.Int) bool { return v.Sign() >= 0 && v.BitLen() <= 256 }

// c03Byzantine builds a solved-for tuple of the given kind for VerifyHashed.
func c03Byzantine(kind string, w *core.Rand) map[string]string {
	n := ref.SM2N
	for tries := 0; tries < 100; tries++ {
		d := randScalar(w)
		P := ref.MulG(d)
		r, s := randScalar(w), randScalar(w)
		encR, encS := (*big.Int)(nil), (*big.Int)(nil)
		encPx, encPy := (*big.Int)(nil), (*big.Int)(nil)
		eAdd := big.NewInt(0)
		switch kind {
		case "e>=n": // an authentic signature over a digest whose integer value is >= n
			e := highCandidate(w)
			reason, rr, ss := ref.SignStep(d, ref.Int(e), randScalar(w))
			if reason != ref.RejNone {
				continue
			}
			return map[string]string{"pubx": hx(ref.Pad32(P.X)), "puby": hx(ref.Pad32(P.Y)), "e": hx(e), "r": hx(ref.Pad32(rr)), "s": hx(ref.Pad32(ss))}
		case "x1>=n":
			// a valid tuple whose R = [s]G+[t]P has an abscissa in [n, p): x1 is reduced mod n by
			// the equation, so the verifier must not assume x1 < n. Choose R1 with x >= n, then
			// P = t^-1 (R1 - [s]G), r = t - s, e = r - x1.
			var R1 ref.Pt
			found := false
			for off := int64(w.Intn(1000)); off < 200000 && !found; off++ {
				x := new(big.Int).Add(ref.SM2N, big.NewInt(off))
				if x.Cmp(ref.SM2P) >= 0 {
					break
				}
				rhs := new(big.Int).Exp(x, big.NewInt(3), ref.SM2P)
				rhs.Add(rhs, new(big.Int).Mul(ref.SM2A, x))
				rhs.Add(rhs, ref.SM2B)
				rhs.Mod(rhs, ref.SM2P)
				if y, ok := sqrtP(rhs); ok {
					R1, found = ref.Pt{X: x, Y: y}, true
				}
			}
			if !found {
				continue
			}
			tt := new(big.Int).Add(r, s)
			tt.Mod(tt, n)
			if tt.Sign() == 0 {
				continue
			}
			Q := ref.Add(R1, ref.Neg(ref.MulG(s)))
			if Q.Inf {
				continue
			}
			PP := ref.Mul(new(big.Int).ModInverse(tt, n), Q)
			if PP.Inf {
				continue
			}
			ev := new(big.Int).Sub(r, R1.X)
			ev.Mod(ev, n)
			return map[string]string{"pubx": hx(ref.Pad32(PP.X)), "puby": hx(ref.Pad32(PP.Y)), "e": hx(ref.Pad32(ev)), "r": hx(ref.Pad32(r)), "s": hx(ref.Pad32(s))}
		case "result-point":
			// a valid tuple whose R = [s]G+[t]P is a chosen point: x1 = 0 (a finite point, not
			// infinity), a small or structured x1, a small y1. P = t^-1 (R1 - [s]G), e = r - x1.
			var R1 ref.Pt
			switch w.Intn(4) {
			case 0:
				R1 = ref.Pt{X: big.NewInt(0), Y: c12SqrtB()}
			case 1:
				x, y := smallXPoint(w)
				R1 = ref.Pt{X: x, Y: y}
			case 2:
				x, y := structuredXPoint(w)
				R1 = ref.Pt{X: x, Y: y}
			default:
				x, y := smallYPoint(w)
				R1 = ref.Pt{X: x, Y: y}
			}
			if w.Chance(1, 2) {
				R1 = ref.Neg(R1)
			}
			tt := new(big.Int).Add(r, s)
			tt.Mod(tt, n)
			if tt.Sign() == 0 {
				continue
			}
			Q := ref.Add(R1, ref.Neg(ref.MulG(s)))
			if Q.Inf {
				continue
			}
			PP := ref.Mul(new(big.Int).ModInverse(tt, n), Q)
			if PP.Inf {
				continue
			}
			ev := new(big.Int).Sub(r, R1.X)
			ev.Mod(ev, n)
			return map[string]string{"pubx": hx(ref.Pad32(PP.X)), "puby": hx(ref.Pad32(PP.Y)), "e": hx(ref.Pad32(ev)), "r": hx(ref.Pad32(r)), "s": hx(ref.Pad32(s))}
		case "partial-sum-collision":
			// a valid tuple in which [t]P plus the G-part of s built from its high bits lands on
			// (plus or minus) a small multiple of G: intermediate sums of a windowed double-scalar
			// multiplication then coincide with a table entry, the exceptional case of incomplete
			// addition formulas. t = (m - s_hi) d^-1 with s_hi = s with its low j bits cleared.
			j := uint(w.Range(1, 8))
			low := new(big.Int).And(s, new(big.Int).Sub(new(big.Int).Lsh(big.NewInt(1), j), big.NewInt(1)))
			sHi := new(big.Int).Sub(s, low)
			m := new(big.Int).Set(low)
			switch w.Intn(4) {
			case 1:
				m.Neg(low)
			case 2:
				m.SetInt64(int64(w.Intn(1 << j)))
			case 3:
				m.SetInt64(0)
			}
			tt := new(big.Int).Sub(m, sHi)
			tt.Mul(tt, new(big.Int).ModInverse(d, n))
			tt.Mod(tt, n)
			if tt.Sign() == 0 {
				continue
			}
			r = new(big.Int).Sub(tt, s)
			r.Mod(r, n)
			if r.Sign() == 0 {
				continue
			}
		case "pubx+p/structured":
			x, y := structuredXPoint(w)
			P = ref.Pt{X: x, Y: y}
			encPx = new(big.Int).Add(x, ref.SM2P)
		case "valid-solved", "neg-pub":
			if kind == "valid-solved" && w.Chance(1, 3) {
				// a public key nobody holds the private key of: a curve point whose x (or y) has a
				// structured Montgomery form; the tuple is solved for below all the same
				x, y := montXPoint(w)
				P = ref.Pt{X: x, Y: y}
			}
		case "r=0", "r=n":
			r = big.NewInt(0)
			if kind == "r=n" {
				encR = n
			}
		case "s=0", "s=n":
			s = big.NewInt(0)
			if kind == "s=n" {
				encS = n
			}
		case "r+n":
			r = big.NewInt(int64(1 + w.Intn(1<<30)))
			encR = new(big.Int).Add(r, n)
		case "s+n":
			s = big.NewInt(int64(1 + w.Intn(1<<30)))
			encS = new(big.Int).Add(s, n)
		case "t=0":
			s = new(big.Int).Sub(n, r)
		case "pubx+p":
			x, y := smallXPoint(w)
			P = ref.Pt{X: x, Y: y}
			encPx = new(big.Int).Add(x, ref.SM2P)
		case "puby+p?":
			// a point whose y is small enough that y+p fits in 32 bytes (the abscissa is a root
			// of a cubic: see cubic.go); the alias y+p must be refused
			x, y := smallYPoint(w)
			P = ref.Pt{X: x, Y: y}
			if w.Chance(1, 6) { // canonical control: the same key as it should be sent
				break
			}
			encPy = new(big.Int).Add(y, ref.SM2P)
		case "offcurve":
			P = ref.Pt{X: ref.Int(w.Bytes(31)), Y: ref.Int(w.Bytes(31))}
			if w.Chance(1, 2) { // off the curve by a structured residual (see residualPoint)
				if rx, ry, _, ok := residualPoint(w); ok {
					P = ref.Pt{X: rx, Y: ry}
				}
			}
			if ref.OnCurve(P.X, P.Y) {
				continue
			}
		case "infinity":
			// s + (r+s) d = 0  =>  s = -r d (1+d)^-1
			inv := new(big.Int).Add(d, big.NewInt(1))
			inv.ModInverse(inv, n)
			s = new(big.Int).Mul(r, d)
			s.Neg(s)
			s.Mul(s, inv)
			s.Mod(s, n)
		}
		t := new(big.Int).Add(r, s)
		t.Mod(t, n)
		pt := ref.Add(ref.MulG(s), ref.Mul(t, P))
		e := new(big.Int)
		if pt.Inf {
			if kind != "infinity" {
				continue
			}
			e.Set(r) // an implementation that treats infinity as x=0 computes (e+0) mod n = r
		} else {
			if kind == "infinity" {
				continue
			}
			e.Sub(r, pt.X)
			e.Mod(e, n)
		}
		ee := new(big.Int).Add(e, eAdd)
		if !fits32(ee) {
			continue
		}
		if kind == "neg-pub" {
			P = ref.Neg(P)
		}
		pick := func(enc, v *big.Int) *big.Int {
			if enc != nil {
				return enc
			}
			return v
		}
		vr, vs, vx, vy := pick(encR, r), pick(encS, s), pick(encPx, P.X), pick(encPy, P.Y)
		if !fits32(vr) || !fits32(vs) || !fits32(vx) || !fits32(vy) {
			continue
		}
		return map[string]string{"pubx": hx(ref.Pad32(vx)), "puby": hx(ref.Pad32(vy)), "e": hx(ref.Pad32(ee)), "r": hx(ref.Pad32(vr)), "s": hx(ref.Pad32(vs))}
	}
	panic("c03Byzantine: could not construct " + kind)
}

// c03SolvedTuple builds a tuple the standard accepts under an arbitrary curve point P
// (no private key needed): choose r, s, set e = r - x([s]G + [r+s]P).
func c03SolvedTuple(P ref.Pt, w *core.Rand) map[string]string {
	for {
		r, s := randScalar(w), randScalar(w)
		t := new(big.Int).Add(r, s)
		t.Mod(t, ref.SM2N)
		if t.Sign() == 0 {
			continue
		}
		pt := ref.Add(ref.MulG(s), ref.Mul(t, P))
		if pt.Inf {
			continue
		}
		e := new(big.Int).Sub(r, pt.X)
		e.Mod(e, ref.SM2N)
		return map[string]string{"pubx": hx(ref.Pad32(P.X)), "puby": hx(ref.Pad32(P.Y)), "e": hx(ref.Pad32(e)), "r": hx(ref.Pad32(r)), "s": hx(ref.Pad32(s))}
	}
}

// c03SameY returns, for a curve point A, another curve point with the same y and a
// different x if one exists (the line y = const meets the cubic in up to three points).
func c03SameY(A ref.Pt) (ref.Pt, bool) {
	// x^2 + xA x + (xA^2 + a) = 0
	disc := new(big.Int).Mul(A.X, A.X)
	disc.Mul(disc, big.NewInt(3))
	disc.Neg(disc)
	disc.Sub(disc, new(big.Int).Mul(big.NewInt(4), ref.SM2A))
	disc.Mod(disc, ref.SM2P)
	sq, ok := sqrtP(disc)
	if !ok {
		return ref.Pt{}, false
	}
	x := new(big.Int).Sub(sq, A.X)
	x.Mul(x, new(big.Int).ModInverse(big.NewInt(2), ref.SM2P))
	x.Mod(x, ref.SM2P)
	if x.Cmp(A.X) == 0 || !ref.OnCurve(x, A.Y) {
		return ref.Pt{}, false
	}
	return ref.Pt{X: x, Y: new(big.Int).Set(A.Y)}, true
}

func c03Fields(entry string) []string {
	switch entry {
	case "VerifyZa":
		return []string{"pubx", "puby", "za", "msg", "r", "s"}
	case "Verify":
		return []string{"id", "pubx", "puby", "msg", "r", "s"}
	}
	return []string{"pubx", "puby", "e", "r", "s"}
}

func c03Mut(entry string, f *core.Rand) wire.Mut {
	fields := c03Fields(entry)
	fld := fields[f.Intn(len(fields))]
	if f.Chance(1, 12) { // same bytes, field boundary moved: (pubx,puby) or (r,s) re-split
		pair := [][2]string{{"pubx", "puby"}, {"r", "s"}}[f.Intn(2)]
		return wire.Mut{Field: pair[0], Kind: "resplit", Other: pair[1], I: f.PickInt(-32, -1, 1, 1, 32, f.Range(-31, 31))}
	}
	switch f.Weighted(10, 2, 2, 2, 2, 1, 2, 3) {
	case 0:
		return wire.Mut{Field: fld, Kind: "flip", I: f.Intn(256)}
	case 1:
		return wire.Mut{Field: fld, Kind: "drop", I: f.Intn(32)}
	case 2:
		return wire.Mut{Field: fld, Kind: "insert", I: f.Intn(33), V: f.PickInt(0, 0, 1, 0xff, f.Intn(256))}
	case 3:
		return wire.Mut{Field: fld, Kind: "trunc", I: f.PickInt(0, 1, 16, 31)}
	case 4:
		return wire.Mut{Field: fld, Kind: "extend", I: f.PickInt(1, 1, 32), V: f.PickInt(0, 0, 7)}
	case 5:
		return wire.Mut{Field: fld, Kind: "zero"}
	case 6:
		if f.Chance(1, 2) {
			return wire.Mut{Field: "r", Kind: "swap", Other: "s"}
		}
		return wire.Mut{Field: "pubx", Kind: "swap", Other: "puby"}
	}
	// splice a field of another authentic message in (incl. replay under another key)
	return wire.Mut{Field: fld, Kind: "splice", Other: "other." + fld}
}

func (c03) Generate(idx int, r *core.Rand, tier string) core.Script {
	if idx < len(c03Byz)*4 {
		cr := core.NewRand(core.Mix(0xC03, "sys", uint64(idx)))
		kind := c03Byz[idx%len(c03Byz)]
		return &c03Script{Entry: "VerifyHashed", Fields: c03Byzantine(kind, cr), Byz: kind}
	}
	w := r.Split("workload")
	f := r.Split("faults")
	s := &c03Script{Entry: []string{"VerifyHashed", "VerifyHashed", "VerifyZa", "Verify"}[w.Intn(4)]}
	if s.Entry == "VerifyHashed" && w.Chance(1, 4) {
		s.Byz = c03Byz[w.Intn(len(c03Byz))]
		s.Fields = c03Byzantine(s.Byz, w)
		if f.Chance(1, 4) {
			s.Muts = append(s.Muts, c03Mut(s.Entry, f))
		}
		return s
	}
	if s.Entry == "VerifyHashed" && w.Chance(1, 12) {
		// two keys related by a symmetry of the curve (same y, different x), one after the
		// other through the same verifier: whatever it remembers about the first key must not
		// leak into the second
		for tries := 0; tries < 20; tries++ {
			A := ref.MulG(randScalar(w))
			if B, ok := c03SameY(A); ok {
				s.Before = append(s.Before, c03SolvedTuple(A, w))
				s.Fields = c03SolvedTuple(B, w)
				s.Byz = "same-y-key"
				if w.Chance(1, 3) { // A's signature presented under B: must be rejected
					for _, k := range []string{"e", "r", "s"} {
						s.Fields[k] = s.Before[0][k]
					}
				}
				return s
			}
		}
	}
	s.Fields = c03Authentic(s.Entry, w)
	if w.Chance(1, 25) { // line noise: every field replaced by arbitrary bytes of arbitrary length
		for _, k := range c03Fields(s.Entry) {
			s.Fields[k] = hx(w.Bytes(w.PickInt(0, 1, 31, 32, 32, 32, 33, 64, w.Intn(70))))
		}
		s.Byz = "noise"
		return s
	}
	if w.Chance(1, 3) { // earlier traffic through the same receive buffers
		for i := w.Range(1, 3); i > 0; i-- {
			b := c03Authentic(s.Entry, w)
			if w.Chance(1, 3) { // same key as the main tuple
				b["pubx"], b["puby"] = s.Fields["pubx"], s.Fields["puby"]
			}
			s.Before = append(s.Before, b)
		}
	}
	nm := f.Weighted(3, 8, 2, 1)
	needOther := false
	for i := 0; i < nm; i++ {
		m := c03Mut(s.Entry, f)
		if m.Kind == "splice" {
			needOther = true
		}
		s.Muts = append(s.Muts, m)
	}
	if needOther {
		s.Other = c03Authentic(s.Entry, w)
	}
	return s
}

func (c03) Decode(raw json.RawMessage) (core.Script, error) {
	var s c03Script
	if err := json.Unmarshal(raw, &s); err != nil {
		return nil, err
	}
	return &s, nil
}

func (c03) Execute(sc core.Script, keep bool) *core.Result {
	s := sc.(*c03Script)
	res := core.NewResult()
	log := &core.Log{Keep: keep}
	defer func() {
		res.EventHash = log.Hash()
		res.Steps = log.Steps()
		res.LogLines = log.Lines
	}()
	in := map[string][]byte{}
	for k, v := range s.Fields {
		in[k] = unhx(v)
	}
	for k, v := range s.Other {
		in["other."+k] = unhx(v)
	}
	out, fired := wire.Apply(in, s.Muts)
	for k, v := range fired {
		res.Faults[k] += v
	}
	if s.Byz != "" {
		res.Faults["byz:"+s.Byz]++
	}
	// Canonical prelude: one verification of a fixed authentic tuple in fresh buffers, so
	// that whatever the library may remember from earlier runs in this worker process (a
	// last-key cache, say) is in the same state at the start of every run. Without it a
	// stateful library makes runs depend on their predecessors and replays inexact.
	core.Catch(func() {
		sm2.VerifyHashed(append([]byte{}, c03Canon[0]...), append([]byte{}, c03Canon[1]...), append([]byte{}, c03Canon[2]...), append([]byte{}, c03Canon[3]...), append([]byte{}, c03Canon[4]...))
	})
	// receive buffers reused across deliveries
	recv := map[string][]byte{}
	deliver := func(fields map[string][]byte) map[string][]byte {
		o := map[string][]byte{}
		for k, v := range fields {
			if strings.HasPrefix(k, "other.") {
				continue
			}
			b := recv[k]
			if cap(b) < len(v) {
				b = make([]byte, 0, len(v)+64)
			}
			b = append(b[:0], v...)
			recv[k] = b
			o[k] = b
		}
		return o
	}
	digest := func(f map[string][]byte) (e []byte) {
		switch s.Entry {
		case "VerifyHashed":
			e = f["e"]
		case "VerifyZa":
			ee := ref.E(f["za"], f["msg"])
			e = ee[:]
		case "Verify":
			za, _ := ref.ZA(f["id"], f["pubx"], f["puby"])
			ee := ref.E(za[:], f["msg"])
			e = ee[:]
		}
		return
	}
	call := func(f map[string][]byte, e []byte) (got bool, err error) {
		switch s.Entry {
		case "VerifyHashed":
			return sm2.VerifyHashed(f["pubx"], f["puby"], e, f["r"], f["s"])
		case "VerifyZa":
			return sm2.VerifyZa(f["pubx"], f["puby"], f["za"], f["msg"], f["r"], f["s"])
		}
		return sm2.Verify(f["id"], f["pubx"], f["puby"], f["msg"], f["r"], f["s"])
	}
	for bi, b := range s.Before {
		bf := map[string][]byte{}
		for k, v := range b {
			bf[k] = unhx(v)
		}
		if len(bf["id"]) >= 8192 {
			continue
		}
		res.Faults["reused-receive-buffers"]++
		d := deliver(bf)
		e0 := digest(d)
		reason0 := ref.VerifyReason(d["pubx"], d["puby"], e0, d["r"], d["s"])
		var got bool
		p, txt, _, _ := core.Catch(func() { got, _ = call(d, e0) })
		log.Add("before#%d ref=%s lib: panic=%v ok=%v", bi, reason0, p, got)
		if p || got != (reason0 == "ok") {
			res.Violation = &core.Violation{Class: "wrong-verdict-in-history", Op: s.Entry, Role: "verifier", Param: reason0, Detail: fmt.Sprintf("earlier delivery %d: standard says %s, library ok=%v panic=%v %s", bi, reason0, got, p, txt)}
			log.Add("VIOLATION %s", res.Violation.Detail)
			res.Nontrivial = true
			res.Fingerprint = "history-violation"
			return res
		}
	}
	if len(out["id"]) >= 8192 {
		log.Add("id too long: outside this check")
		res.Fingerprint = "skip"
		return res
	}
	if len(s.Before) > 0 {
		out = deliver(out)
	}
	px, py, rr, ss := out["pubx"], out["puby"], out["r"], out["s"]
	e := digest(out)
	reason := ref.VerifyReason(px, py, e, rr, ss)
	want := reason == "ok"
	if want {
		res.Probes["accept-expected"]++
		t := new(big.Int).Add(ref.Int(rr), ref.Int(ss))
		t.Mod(t, ref.SM2N)
		if leadZeros(ref.Pad32(t)) > 0 {
			res.Probes["short-t-valid"]++
		}
	} else {
		res.Probes["reason:"+reason]++
	}
	var got bool
	var err error
	p, txt, _, _ := core.Catch(func() { got, err = call(out, e) })
	var mk []string
	for _, m := range s.Muts {
		mk = append(mk, m.Kind+":"+m.Field)
	}
	sort.Strings(mk)
	log.Add("%s muts=%v byz=%s lens=%d,%d,%d,%d,%d ref=%s lib: panic=%v ok=%v err=%v", s.Entry, mk, s.Byz, len(px), len(py), len(e), len(rr), len(ss), reason, p, got, err != nil)
	res.Fingerprint = core.Fp(s.Entry, strings.Join(mk, ","), s.Byz, reason, fmt.Sprint(len(s.Before)))
	res.Nontrivial = len(fired) > 0 || s.Byz != "" || len(s.Before) > 0
	param := reason
	if s.Byz != "" {
		param += "/byz=" + s.Byz
	}
	if len(s.Before) > 0 {
		param += "/after-earlier-deliveries-in-same-buffers"
	}
	viol := func(class, detail string) {
		res.Violation = &core.Violation{Class: class, Op: s.Entry, Role: "verifier", Param: param, Detail: detail}
		log.Add("VIOLATION %s %s: %s", class, param, detail)
	}
	tuple := fmt.Sprintf("pub=(%x,%x) e=%x r=%x s=%x", px, py, e, rr, ss)
	switch {
	case p:
		viol("panic", "verifier panicked: "+txt+" on "+tuple)
	case want && !got:
		viol("rejected-valid", fmt.Sprintf("GM/T 0003.2 accepts but the library returned false (err=%v): %s", err, tuple))
	case !want && got:
		viol("accepted-invalid", fmt.Sprintf("library accepts although the standard rejects (%s): %s", reason, tuple))
	}
	_ = bytes.Equal
	return res
}

func (c03) Shrinks(sc core.Script) []core.Script {
	s := sc.(*c03Script)
	cp := func() *c03Script {
		raw, _ := json.Marshal(s)
		var c c03Script
		json.Unmarshal(raw, &c)
		return &c
	}
	var out []core.Script
	if len(s.Before) > 0 {
		c := cp()
		c.Before = nil
		out = append(out, c)
		for i := range s.Before {
			c := cp()
			c.Before = append(c.Before[:i], c.Before[i+1:]...)
			out = append(out, c)
		}
	}
	for i := range s.Muts {
		c := cp()
		c.Muts = append(c.Muts[:i], c.Muts[i+1:]...)
		out = append(out, c)
	}
	// bake the mutations into literal fields, VerifyHashed on the final e
	if len(s.Muts) > 0 || s.Entry != "VerifyHashed" {
		in := map[string][]byte{}
		for k, v := range s.Fields {
			in[k] = unhx(v)
		}
		for k, v := range s.Other {
			in["other."+k] = unhx(v)
		}
		o, _ := wire.Apply(in, s.Muts)
		if s.Entry == "VerifyHashed" {
			c := &c03Script{Entry: s.Entry, Fields: map[string]string{}, Byz: s.Byz, Before: s.Before}
			for _, k := range c03Fields(s.Entry) {
				c.Fields[k] = hx(o[k])
			}
			out = append(out, c)
		}
	}
	for _, k := range []string{"msg", "id"} {
		if v, ok := s.Fields[k]; ok && v != "" {
			c := cp()
			c.Fields[k] = ""
			out = append(out, c)
		}
	}
	return out
}

package props

import (
	"math/big"

	"verif/sim/core"
	"verif/sim/ref"
)

// Curve points with a chosen y: the abscissas are the roots of x^3 + ax + (b - y^2) over
// F_p, found by the standard equal-degree splitting (gcd with x^p - x, then with
// (x+delta)^((p-1)/2) - 1). Polynomials are little-endian coefficient slices.

type poly []*big.Int

func polyTrim(a poly) poly {
	for len(a) > 0 && a[len(a)-1].Sign() == 0 {
		a = a[:len(a)-1]
	}
	return a
}

func polyMod(a, m poly) poly {
	p := ref.SM2P
	a = polyTrim(append(poly{}, a...))
	for i := range a {
		a[i] = new(big.Int).Set(a[i])
	}
	dm := len(m) - 1
	inv := new(big.Int).ModInverse(m[dm], p)
	for len(a)-1 >= dm && len(a) > 0 {
		q := new(big.Int).Mul(a[len(a)-1], inv)
		q.Mod(q, p)
		sh := len(a) - 1 - dm
		for i := 0; i <= dm; i++ {
			t := new(big.Int).Mul(q, m[i])
			a[sh+i].Sub(a[sh+i], t)
			a[sh+i].Mod(a[sh+i], p)
		}
		a = polyTrim(a)
	}
	return a
}

func polyMulMod(a, b, m poly) poly {
	if len(a) == 0 || len(b) == 0 {
		return poly{}
	}
	c := make(poly, len(a)+len(b)-1)
	for i := range c {
		c[i] = new(big.Int)
	}
	for i, x := range a {
		for j, y := range b {
			c[i+j].Add(c[i+j], new(big.Int).Mul(x, y))
		}
	}
	for i := range c {
		c[i].Mod(c[i], ref.SM2P)
	}
	return polyMod(c, m)
}

func polyPowMod(base poly, e *big.Int, m poly) poly {
	res := poly{big.NewInt(1)}
	for i := e.BitLen() - 1; i >= 0; i-- {
		res = polyMulMod(res, res, m)
		if e.Bit(i) == 1 {
			res = polyMulMod(res, base, m)
		}
	}
	return res
}

func polyGCD(a, b poly) poly {
	a, b = polyTrim(a), polyTrim(b)
	for len(b) > 0 {
		a, b = b, polyMod(a, b)
	}
	return a
}

func polySub(a, b poly) poly {
	n := len(a)
	if len(b) > n {
		n = len(b)
	}
	c := make(poly, n)
	for i := range c {
		c[i] = new(big.Int)
		if i < len(a) {
			c[i].Add(c[i], a[i])
		}
		if i < len(b) {
			c[i].Sub(c[i], b[i])
		}
		c[i].Mod(c[i], ref.SM2P)
	}
	return polyTrim(c)
}

// polyDiv returns a / b for b dividing a.
func polyDiv(a, b poly) poly {
	p := ref.SM2P
	a = append(poly{}, polyTrim(a)...)
	for i := range a {
		a[i] = new(big.Int).Set(a[i])
	}
	db := len(b) - 1
	inv := new(big.Int).ModInverse(b[db], p)
	q := make(poly, len(a)-db)
	for i := len(a) - 1; i >= db; i-- {
		c := new(big.Int).Mul(a[i], inv)
		c.Mod(c, p)
		q[i-db] = c
		for j := 0; j <= db; j++ {
			a[i-db+j].Sub(a[i-db+j], new(big.Int).Mul(c, b[j]))
			a[i-db+j].Mod(a[i-db+j], p)
		}
	}
	return q
}

// rootsOfSplit returns the roots of g, a product of distinct linear factors.
func rootsOfSplit(g poly, r *core.Rand, depth int) []*big.Int {
	p := ref.SM2P
	g = polyTrim(g)
	switch {
	case len(g) <= 1 || depth > 60:
		return nil
	case len(g) == 2: // g1 x + g0
		x := new(big.Int).ModInverse(g[1], p)
		x.Mul(x, g[0]).Neg(x).Mod(x, p)
		return []*big.Int{x}
	}
	half := new(big.Int).Rsh(new(big.Int).Sub(p, big.NewInt(1)), 1)
	delta := ref.Int(r.Bytes(32))
	delta.Mod(delta, p)
	w := polyPowMod(poly{delta, big.NewInt(1)}, half, g)
	w = polySub(w, poly{big.NewInt(1)})
	h := polyGCD(g, w)
	if len(h) <= 1 || len(h) == len(g) {
		return rootsOfSplit(g, r, depth+1)
	}
	return append(rootsOfSplit(h, r, depth+1), rootsOfSplit(polyDiv(g, h), r, depth+1)...)
}

// xForY returns the abscissas of the curve points with ordinate y.
func xForY(y *big.Int, r *core.Rand) []*big.Int {
	p := ref.SM2P
	c := new(big.Int).Mul(y, y)
	c.Sub(ref.SM2B, c).Mod(c, p)
	f := poly{c, new(big.Int).Set(ref.SM2A), big.NewInt(0), big.NewInt(1)}
	xp := polyPowMod(poly{big.NewInt(0), big.NewInt(1)}, p, f)
	g := polyGCD(f, polySub(xp, poly{big.NewInt(0), big.NewInt(1)}))
	xs := rootsOfSplit(g, r, 0)
	for _, x := range xs {
		if !ref.OnCurve(x, y) {
			panic("harness: cubic solver returned a point off the curve")
		}
	}
	return xs
}

// smallYPoint finds a curve point whose y is small or structured and below 2^223, so that
// the non-canonical encoding y+p fits in 32 bytes (the counterpart of smallXPoint and
// structuredXPoint for the other coordinate).
func smallYPoint(r *core.Rand) (x, y *big.Int) {
	for try := 0; ; try++ {
		switch r.Intn(3) {
		case 0:
			y = big.NewInt(int64(1 + r.Intn(1<<20)))
			if try == 0 && r.Chance(1, 2) {
				y = big.NewInt(int64(1 + r.Intn(4)))
			}
		case 1:
			y = new(big.Int).Lsh(big.NewInt(int64(1+r.Intn(1<<16))), uint(32*r.PickInt(1, 1, 2, 3, 4, 5, 6)))
			y.Sub(y, big.NewInt(1))
		default:
			y = ref.Int(r.Bytes(r.Range(1, 27)))
		}
		if y.Sign() == 0 || y.BitLen() > 223 {
			continue
		}
		if xs := xForY(y, r); len(xs) > 0 {
			return xs[r.Intn(len(xs))], y
		}
	}
}

package props

import (
	"bytes"
	"encoding/json"
	"fmt"
	"hash"
	"io"
	"strings"

	"github.com/bilibili/smgo/sm3"

	"verif/sim/core"
	"verif/sim/dev/pipe"
	"verif/sim/ref"
)

// C04 — SM3: every Write/Sum/Reset history yields the standard digest.
//
// System: producer -> simulated pipe -> consumer that owns one hash.Hash. The pipe
// decides chunking and stalls; the script injects peeks (Sum), double peeks, resets and
// zero-length writes at arbitrary points. Oracle: sm3ref over the bytes written since
// the last Reset, checked after every Sum and at the end of the run.

type c04Op struct {
	Kind   string      `json:"kind"`             // write | pump | sum | reset
	N      int         `json:"n,omitempty"`      // write/pump: bytes taken from the message
	Pump   string      `json:"pump,omitempty"`   // io.Copy | io.CopyBuffer | multi | hand
	Buf    int         `json:"buf,omitempty"`    // CopyBuffer / hand loop buffer size
	Chunks []pipe.Step `json:"chunks,omitempty"` // pipe program
	EOFW   bool        `json:"eof_with_data,omitempty"`
	PLen   int         `json:"plen,omitempty"` // sum: prefix length
	PCap   int         `json:"pcap,omitempty"` // sum: prefix capacity (>= plen)
	Twice  bool        `json:"twice,omitempty"`
	H      int         `json:"h,omitempty"` // which of the run's two hash values the op goes to (when Two)
}

type c04Script struct {
	MsgSeed uint64  `json:"msg_seed"`
	MsgLen  int     `json:"msg_len"`
	Zero    bool    `json:"zero,omitempty"`
	Two     bool    `json:"two,omitempty"`   // two independent hash values used alternately by one consumer
	Giant   int     `json:"giant,omitempty"` // >0: one hash value fed this many bytes in 1 MiB writes, Sum taken around 2^29 bytes
	Call    int     `json:"call,omitempty"`  // >0: one single Write call (and one SumSM3 call) of this many bytes, after Pend bytes written before it
	Pend    int     `json:"pend,omitempty"`
	Ops     []c04Op `json:"ops"`
}

type c04 struct{}

func init() { core.Register(c04{}) }

func (c04) ID() string { return "C04" }

func (c04) Plan(tier string) core.Plan {
	if tier == "thorough" {
		return core.Plan{Systematic: c04SysN + 1, Seeded: 4000000} // + one stream crossing 2^32 bytes
	}
	return core.Plan{Systematic: c04SysN, Seeded: 400000}
}

// systematic part: every message length 0..200 split at every position into two writes
// is too large; instead every length 0..260 written (a) in one Write, (b) byte by byte,
// (c) through io.Copy with 1-byte reads is enumerated: 3*261 cases.
const c04SysN = 3*261 + 1 + len(c04Calls) // + one stream crossing 2^29 bytes (bit length 2^32) + single calls of tens and hundreds of megabytes

// single calls: {bytes in the one call, bytes pending before it}
var c04Calls = [...][2]int{{33<<20 + 37, 5}, {64<<20 + 64, 0}, {1<<29 + 3, 0}, {1<<29 - 60, 63}}

func (c04) Meta() core.Meta {
	return core.Meta{
		Level: "exploration",
		Rule: "systematic: every message length 0..260 x {one Write, byte-by-byte Writes, io.Copy through a 7-byte-chunk pipe}, one stream of 2^29+5 bytes (bit count crosses 2^32), four single Write/SumSM3 calls of 33 MiB, 64 MiB and about 2^29 bytes (with 0, 5 or 63 bytes pending) and, thorough tier only, one of 2^32+9 bytes (byte count crosses 2^32) with Sum taken on both sides of each boundary; seeded: histories of <=40 ops, 1 in 250 with 200-1200 ops and up to 128 KiB, 1 in 1500 with single Write calls of 1-3 MiB (mostly with 1..63 bytes pending from earlier writes), 1 in 5 on two hash values used alternately (write, pump through io.Copy/io.CopyBuffer/io.MultiWriter/hand loop over a short-reading stalling pipe, Sum with prefix len/cap, double Sum, Reset, zero-length write) over messages 0..4096 bytes (long runs: 128 KiB) with chunk sizes biased to leave the block buffer at 0,1,55,56,63 and to straddle 64/128. " +
			"non-trivial = a pipe fault fired, a peek/reset happened mid-stream, or a write straddled a block boundary; distinct = distinct (op-kind sequence, buffer-fill classes at each Sum, pump kinds, faults fired)",
		Components: map[string]string{"sm3.New/Write/Sum/Reset/SumSM3": "real", "io.Copy/io.CopyBuffer/io.MultiWriter": "real (stdlib consumers of Write's return value)",
			"byte source": "stub (simulated pipe)", "oracle": "sm3ref (GB/T 32905 transcribed; anchored on A.1/A.2)"},
		Assumptions: []string{"sm3ref is correct (anchors: GB/T 32905 A.1, A.2; the GM/T 0003.5 ZA/e values)"},
		FaultKinds:  []string{"short-read", "stall", "eof-with-data", "peek", "double-peek", "reset-midstream", "zero-write", "prefix-spare-capacity", "two-hash-values"},
		ProbeNames:  []string{"fill=55", "fill=56", "fill=63", "fill=0-after-data", "straddle", "len>=2blocks", "len>=2^29", "write>=1MiB-with-bytes-pending", "single-call>=32MiB", "single-call>=2^29"},
		StepUnit:    "hash ops + pipe reads",
	}
}

func c04Chunk(r *core.Rand) int {
	switch r.Weighted(4, 3, 2) {
	case 0:
		return r.PickInt(1, 7, 8, 9, 55, 56, 57, 63, 64, 65, 119, 120, 127, 128, 129, 183, 184, 191, 192)
	case 1:
		return r.Range(1, 70)
	}
	return r.Range(1, 700)
}

func (c04) Generate(idx int, r *core.Rand, tier string) core.Script {
	if idx == 3*261 {
		return &c04Script{MsgSeed: 0x61a27, Giant: 1<<29 + 5}
	}
	if idx > 3*261 && idx < c04SysN {
		c := c04Calls[idx-3*261-1]
		return &c04Script{MsgSeed: 0x61a30 + uint64(idx), Call: c[0], Pend: c[1]}
	}
	if tier == "thorough" && idx == c04SysN {
		return &c04Script{MsgSeed: 0x61a28, Giant: 1<<32 + 9} // the byte count itself crosses 2^32
	}
	if idx < c04SysN {
		l := idx % 261
		s := &c04Script{MsgSeed: uint64(idx) * 7919, MsgLen: l}
		switch idx / 261 {
		case 0:
			s.Ops = []c04Op{{Kind: "write", N: l}}
		case 1:
			for i := 0; i < l; i++ {
				s.Ops = append(s.Ops, c04Op{Kind: "write", N: 1})
			}
		default:
			var ch []pipe.Step
			for i := 0; i <= l/7+1; i++ {
				ch = append(ch, pipe.Step{N: 7})
			}
			s.Ops = []c04Op{{Kind: "pump", N: l, Pump: "io.Copy", Chunks: ch}}
		}
		s.Ops = append(s.Ops, c04Op{Kind: "sum"})
		return s
	}
	w := r.Split("workload")
	f := r.Split("faults")
	s := &c04Script{MsgSeed: w.Uint64(), Zero: w.Chance(1, 20), Two: w.Chance(1, 5)}
	// swarm
	enPump, enPeek, enReset, enZero := w.Chance(3, 4), w.Chance(3, 4), w.Chance(1, 2), w.Chance(1, 3)
	nops := w.Range(1, 24)
	if w.Chance(1, 8) {
		nops = w.Range(24, 40)
	}
	limit := 4096
	if w.Chance(1, 250) { // a long-lived hash value: hundreds of operations, up to 128 KiB
		nops = w.Range(200, 1200)
		limit = 1 << 17
	}
	huge := false
	if w.Chance(1, 1500) { // single Write calls of a megabyte and more, mostly with bytes pending from earlier calls
		huge, nops, limit = true, w.Range(2, 9), 9<<20
	}
	total := 0
	for i := 0; i < nops && total < limit; i++ {
		switch {
		case enPeek && w.Chance(1, 5):
			op := c04Op{Kind: "sum", Twice: w.Chance(1, 3)}
			if w.Chance(1, 2) {
				op.PLen = w.PickInt(0, 1, 7, 16, 31, 32, 33)
				op.PCap = op.PLen + w.PickInt(0, 0, 1, 31, 32, 33, 64)
			}
			s.Ops = append(s.Ops, op)
		case enReset && w.Chance(1, 10):
			s.Ops = append(s.Ops, c04Op{Kind: "reset"})
		case enZero && w.Chance(1, 10):
			s.Ops = append(s.Ops, c04Op{Kind: "write", N: 0})
		case enPump && w.Chance(1, 3):
			op := c04Op{Kind: "pump", N: c04Chunk(w) * w.Range(1, 4), Pump: []string{"io.Copy", "io.CopyBuffer", "multi", "hand"}[w.Intn(4)],
				Buf: w.PickInt(1, 3, 16, 63, 64, 65, 100, 512), EOFW: f.Chance(1, 3)}
			for k := f.Range(0, 8); k > 0; k-- {
				if f.Chance(1, 6) {
					op.Chunks = append(op.Chunks, pipe.Step{N: 0})
				} else {
					op.Chunks = append(op.Chunks, pipe.Step{N: c04Chunk(f)})
				}
			}
			if total+op.N > limit {
				op.N = limit - total
			}
			total += op.N
			s.Ops = append(s.Ops, op)
		default:
			n := c04Chunk(w)
			if limit > 4096 && w.Chance(1, 10) {
				n = w.PickInt(1000, 4096, 5000, 16384, 20000)
			}
			if huge && w.Chance(1, 2) {
				n = w.PickInt(1<<20-1, 1<<20, 1<<20+1, 1<<20+64, 1<<20+c04Chunk(w), 1<<21, 1<<21+777, 3<<20+5, 1<<16+3, 1<<18)
			}
			if total+n > limit {
				n = limit - total
			}
			total += n
			s.Ops = append(s.Ops, c04Op{Kind: "write", N: n})
		}
	}
	s.MsgLen = total
	if s.Two {
		for i := range s.Ops {
			s.Ops[i].H = w.Intn(2)
		}
	}
	return s
}

func (c04) Decode(raw json.RawMessage) (core.Script, error) {
	var s c04Script
	if err := json.Unmarshal(raw, &s); err != nil {
		return nil, err
	}
	return &s, nil
}

func fillClass(n int) string {
	switch f := n % 64; {
	case f == 0:
		return "0"
	case f < 55:
		return "1..54"
	case f == 55:
		return "55"
	case f == 56:
		return "56"
	case f < 63:
		return "57..62"
	default:
		return "63"
	}
}

// checkedWriter is the hand-written pump loop's view: it verifies Write's contract.
type c04Fail struct {
	class, role, param, detail string
}

func (c04) Execute(sc core.Script, keep bool) *core.Result {
	s := sc.(*c04Script)
	res := core.NewResult()
	log := &core.Log{Keep: keep}
	defer func() {
		res.EventHash = log.Hash()
		res.Steps += log.Steps()
		res.LogLines = log.Lines
	}()
	if s.Call > 0 {
		c04GiantCall(s, res, log)
		return res
	}
	if s.Giant > 0 {
		c04Giant(s, res, log)
		return res
	}
	msg := make([]byte, s.MsgLen)
	if !s.Zero {
		core.NewRand(s.MsgSeed).Fill(msg)
	}
	pos := 0
	take := func(n int) []byte {
		if n > len(msg)-pos {
			n = len(msg) - pos
		}
		b := msg[pos : pos+n]
		pos += n
		return b
	}
	var since []byte // bytes written since last Reset (the model state)
	var fail *c04Fail
	var kinds, fills []string
	opName := ""
	body := func() {
		hs := [2]hash.Hash{sm3.New(), sm3.New()}
		var sinces [2][]byte
		h := hs[0]
		checkSum := func(op c04Op, when string) bool {
			prefix := make([]byte, op.PLen, op.PCap)
			for i := range prefix {
				prefix[i] = byte(0xA0 + i)
			}
			want := ref.SM3(since)
			out := h.Sum(prefix)
			fills = append(fills, fillClass(len(since)))
			log.Add("sum len=%d plen=%d pcap=%d -> %s", len(since), op.PLen, op.PCap, core.Hex8(out))
			if len(out) != op.PLen+32 || !bytes.Equal(out[:op.PLen], prefix) {
				fail = &c04Fail{"append-contract", "sum-prefix", fmt.Sprintf("plen=%d", op.PLen), fmt.Sprintf("Sum(b) did not return b followed by 32 bytes: len %d, prefix %x", len(out), out[:min(len(out), op.PLen)])}
				return false
			}
			if !bytes.Equal(out[op.PLen:], want[:]) {
				fail = &c04Fail{"wrong-digest", "Sum", "fill=" + fillClass(len(since)) + "/" + when,
					fmt.Sprintf("Sum after %d bytes since Reset = %x, SM3 = %x", len(since), out[op.PLen:], want)}
				return false
			}
			return true
		}
		for i, op := range s.Ops {
			opName = op.Kind
			cur := 0
			if s.Two {
				cur = op.H & 1
				res.Faults["two-hash-values"]++
			}
			h, since = hs[cur], sinces[cur]
			switch op.Kind {
			case "write":
				b := take(op.N)
				before := len(since) % 64
				n, err := h.Write(b)
				since = append(since, b...)
				kinds = append(kinds, "w")
				if len(b) == 0 {
					res.Faults["zero-write"]++
				}
				if before+len(b) > 64 && before != 0 {
					res.Probes["straddle"]++
					res.Nontrivial = true
				}
				if len(b) >= 1<<20 {
					res.Probes["write>=1MiB"]++
					if before != 0 {
						res.Probes["write>=1MiB-with-bytes-pending"]++
					}
				}
				log.Add("write %d -> n=%d err=%v", len(b), n, err)
				if err != nil {
					fail = &c04Fail{"write-err", "Write", core.LenClass(len(b)), fmt.Sprintf("Write returned error %v", err)}
					return
				}
				if n != len(b) {
					fail = &c04Fail{"write-n", "Write", "n!=len", fmt.Sprintf("Write(%d bytes) returned n=%d", len(b), n)}
					return
				}
			case "pump":
				b := take(op.N)
				pr := pipe.New(b, op.Chunks, op.EOFW)
				var n int64
				var err error
				kinds = append(kinds, "p:"+op.Pump)
				switch op.Pump {
				case "io.Copy":
					n, err = io.Copy(h, pr)
				case "io.CopyBuffer":
					n, err = io.CopyBuffer(struct{ io.Writer }{h}, struct{ io.Reader }{pr}, make([]byte, max(op.Buf, 1)))
				case "multi":
					var side bytes.Buffer
					n, err = io.Copy(io.MultiWriter(h, &side), pr)
					if err == nil && !bytes.Equal(side.Bytes(), b) {
						err = fmt.Errorf("multiwriter side buffer differs")
					}
				default: // hand loop that trusts n, like bufio-less user code
					buf := make([]byte, max(op.Buf, 1))
					for {
						nr, er := pr.Read(buf)
						off := 0
						for off < nr {
							nw, ew := h.Write(buf[off:nr])
							if ew != nil {
								err = ew
								break
							}
							if nw <= 0 {
								err = io.ErrShortWrite
								break
							}
							off += nw
							n += int64(nw)
						}
						if err != nil || er == io.EOF {
							break
						}
						if er != nil {
							err = er
							break
						}
					}
				}
				for k, v := range pr.Fired {
					res.Faults[k] += v
				}
				res.Steps += pr.Calls()
				if len(pr.Fired) > 0 {
					res.Nontrivial = true
				}
				since = append(since, b...)
				log.Add("pump %s %d bytes -> n=%d err=%v", op.Pump, len(b), n, err)
				if err != nil {
					fail = &c04Fail{"pump-error", op.Pump, "err", fmt.Sprintf("%s of %d bytes into the hash failed: %v (n=%d)", op.Pump, len(b), err, n)}
					return
				}
				if n != int64(len(b)) {
					fail = &c04Fail{"pump-error", op.Pump, "n", fmt.Sprintf("%s copied %d of %d bytes", op.Pump, n, len(b))}
					return
				}
			case "sum":
				kinds = append(kinds, "s")
				if i != len(s.Ops)-1 {
					res.Faults["peek"]++
					res.Nontrivial = true
				}
				if op.PCap > op.PLen {
					res.Faults["prefix-spare-capacity"]++
				}
				if !checkSum(op, "first") {
					return
				}
				if op.Twice {
					res.Faults["double-peek"]++
					if !checkSum(op, "second") {
						return
					}
				}
			case "reset":
				kinds = append(kinds, "r")
				if len(since) > 0 {
					res.Faults["reset-midstream"]++
					res.Nontrivial = true
				}
				h.Reset()
				since = since[:0]
				log.Add("reset")
			}
			sinces[cur] = since
			switch len(since) % 64 {
			case 55:
				res.Probes["fill=55"]++
			case 56:
				res.Probes["fill=56"]++
			case 63:
				res.Probes["fill=63"]++
			case 0:
				if len(since) > 0 {
					res.Probes["fill=0-after-data"]++
				}
			}
			if len(since) >= 128 {
				res.Probes["len>=2blocks"]++
			}
		}
		// end of run: final digest, then once more, then the one-shot function
		opName = "final"
		if s.Two {
			h, since = hs[1], sinces[1]
			if !checkSum(c04Op{}, "final-other") {
				return
			}
		}
		h, since = hs[0], sinces[0]
		if !checkSum(c04Op{}, "final") || !checkSum(c04Op{}, "final-repeat") {
			return
		}
		one := sm3.SumSM3(since)
		want := ref.SM3(since)
		if one != want {
			fail = &c04Fail{"wrong-digest", "SumSM3", "fill=" + fillClass(len(since)), fmt.Sprintf("SumSM3(%d bytes) = %x, SM3 = %x", len(since), one, want)}
		}
		var _ hash.Hash = h
	}
	p, txt, _, _ := core.Catch(body)
	res.Fingerprint = core.Fp(strings.Join(compress(kinds), ""), strings.Join(fills, ","), core.FaultSet(res.Faults))
	if p {
		res.Violation = &core.Violation{Class: "panic", Op: opName, Role: "hash", Param: "fill=" + fillClass(len(since)), Detail: "panic: " + txt}
		log.Add("VIOLATION panic %s", txt)
		return res
	}
	if fail != nil {
		res.Violation = &core.Violation{Class: fail.class, Op: opName, Role: fail.role, Param: fail.param, Detail: fail.detail}
		log.Add("VIOLATION %s %s", fail.class, fail.detail)
	}
	return res
}

// compress run-length-limits a kind sequence so fingerprints stay meaningful.
func compress(k []string) []string {
	var out []string
	run := 0
	for i, x := range k {
		if i > 0 && k[i-1] == x {
			run++
			if run >= 2 {
				continue
			}
		} else {
			run = 0
		}
		out = append(out, x)
	}
	return out
}

func (c04) Shrinks(sc core.Script) []core.Script {
	s := sc.(*c04Script)
	if s.Giant > 0 || s.Call > 0 {
		return nil
	}
	cp := func() *c04Script {
		raw, _ := json.Marshal(s)
		var c c04Script
		json.Unmarshal(raw, &c)
		return &c
	}
	fix := func(c *c04Script) *c04Script {
		t := 0
		for _, o := range c.Ops {
			if o.Kind == "write" || o.Kind == "pump" {
				t += o.N
			}
		}
		c.MsgLen = t
		return c
	}
	var out []core.Script
	// drop halves, then single ops
	if n := len(s.Ops); n > 3 {
		c := cp()
		c.Ops = c.Ops[:n/2]
		out = append(out, fix(c))
		c = cp()
		c.Ops = c.Ops[n/2:]
		out = append(out, fix(c))
	}
	for _, rg := range core.DropRanges(len(s.Ops)) {
		c := cp()
		c.Ops = append(c.Ops[:rg[0]], c.Ops[rg[1]:]...)
		out = append(out, fix(c))
	}
	for i, o := range s.Ops {
		if len(s.Ops) > 40 {
			break
		}
		if o.Kind == "pump" {
			c := cp()
			c.Ops[i] = c04Op{Kind: "write", N: o.N}
			out = append(out, c)
			if len(o.Chunks) > 0 {
				c = cp()
				c.Ops[i].Chunks = nil
				out = append(out, c)
			}
		}
		if (o.Kind == "write" || o.Kind == "pump") && o.N > 0 {
			for _, n := range []int{0, o.N / 2, o.N - 64, o.N - 1} {
				if n >= 0 && n < o.N {
					c := cp()
					c.Ops[i].N = n
					out = append(out, fix(c))
				}
			}
		}
		if o.Kind == "sum" && (o.PLen > 0 || o.PCap > 0 || o.Twice) {
			c := cp()
			c.Ops[i] = c04Op{Kind: "sum"}
			out = append(out, c)
		}
	}
	if !s.Zero {
		c := cp()
		c.Zero = true
		out = append(out, c)
	}
	if s.Two {
		c := cp()
		c.Two = false
		out = append(out, c)
	}
	return out
}

func min(a, b int) int {
	if a < b {
		return a
	}
	return b
}
func max(a, b int) int {
	if a > b {
		return a
	}
	return b
}

// c04Giant streams a very long message (the byte and bit counters of the hash cross
// 2^29 bytes = 2^32 bits) through one hash value and the streaming reference, comparing
// digests shortly before and after the boundary and at the end.
func c04Giant(s *c04Script, res *core.Result, log *core.Log) {
	res.Nontrivial = true
	res.Fingerprint = "giant-stream"
	res.Probes["len>=2^29"]++
	if s.Giant >= 1<<32 {
		res.Fingerprint = "giant-stream>=2^32"
		res.Probes["len>=2^32"]++
	}
	p, txt, _, _ := core.Catch(func() {
		h := sm3.New()
		st := ref.NewSM3Stream()
		r := core.NewRand(s.MsgSeed)
		chunk := make([]byte, 1<<20)
		marks := []int{1<<29 - 1, 1<<29 + 5, 1<<32 - 1, 1<<32 + 1, s.Giant}
		done := 0
		for _, m := range marks {
			if m > s.Giant {
				m = s.Giant
			}
			if m <= done && done > 0 {
				continue
			}
			for done < m {
				n := m - done
				if n > len(chunk) {
					n = len(chunk)
				}
				r.Fill(chunk[:8]) // cheap variation per chunk; the rest keeps the previous content
				k, err := h.Write(chunk[:n])
				st.Write(chunk[:n])
				if k != n || err != nil {
					res.Violation = &core.Violation{Class: "write-n", Op: "write", Role: "Write", Param: "giant", Detail: fmt.Sprintf("Write(%d) = %d, %v after %d bytes", n, k, err, done)}
					return
				}
				done += n
			}
			got, want := h.Sum(nil), st.Sum()
			log.Add("giant: after %d bytes digest %s", done, core.Hex8(got))
			if !bytes.Equal(got, want[:]) {
				res.Violation = &core.Violation{Class: "wrong-digest", Op: "sum", Role: "Sum", Param: "stream>=2^29", Detail: fmt.Sprintf("Sum after %d bytes = %x, SM3 = %x", done, got, want)}
				return
			}
		}
	})
	if p {
		res.Violation = &core.Violation{Class: "panic", Op: "giant", Role: "hash", Param: "stream>=2^29", Detail: "panic: " + txt}
	}
	if res.Violation != nil {
		log.Add("VIOLATION %s", res.Violation.Detail)
	}
}

// c04GiantCall hands the hash tens or hundreds of megabytes in ONE Write call (with a few
// bytes pending from an earlier call) and in one SumSM3 call: code that splits a long
// argument into runs, or that derives the bit length from the length of one argument,
// is reached by no stream that is fed in pieces.
func c04GiantCall(s *c04Script, res *core.Result, log *core.Log) {
	res.Nontrivial = true
	res.Fingerprint = fmt.Sprintf("giant-call/%d+%d", s.Pend, s.Call)
	res.Probes["single-call>=32MiB"]++
	if s.Call+s.Pend >= 1<<29 {
		res.Probes["single-call>=2^29"]++
	}
	p, txt, _, _ := core.Catch(func() {
		buf := make([]byte, s.Call)
		r := core.NewRand(s.MsgSeed)
		r.Fill(buf[:4096])
		for off := 4096; off+8 <= len(buf); off += 65536 - 24 { // sparse variation, never block-aligned for long
			r.Fill(buf[off : off+8])
		}
		r.Fill(buf[len(buf)-64:])
		pre := make([]byte, s.Pend)
		r.Fill(pre)
		h := sm3.New()
		st := ref.NewSM3Stream()
		if s.Pend > 0 {
			h.Write(pre)
			st.Write(pre)
		}
		k, err := h.Write(buf)
		st.Write(buf)
		if k != len(buf) || err != nil {
			res.Violation = &core.Violation{Class: "write-n", Op: "write", Role: "Write", Param: "single-call", Detail: fmt.Sprintf("Write(%d) = %d, %v", len(buf), k, err)}
			return
		}
		got, want := h.Sum(nil), st.Sum()
		log.Add("giant call: %d pending + one Write(%d): digest %s", s.Pend, s.Call, core.Hex8(got))
		if !bytes.Equal(got, want[:]) {
			res.Violation = &core.Violation{Class: "wrong-digest", Op: "sum", Role: "Sum", Param: "single-call", Detail: fmt.Sprintf("Sum after %d pending bytes and one Write of %d bytes = %x, SM3 = %x", s.Pend, s.Call, got, want)}
			return
		}
		// the hash value carries on: the counters it kept from the long call are used again
		h.Write(pre)
		h.Write(buf[:100])
		st.Write(pre)
		st.Write(buf[:100])
		got, want = h.Sum(nil), st.Sum()
		if !bytes.Equal(got, want[:]) {
			res.Violation = &core.Violation{Class: "wrong-digest", Op: "sum", Role: "Sum", Param: "after-single-call", Detail: fmt.Sprintf("Sum %d bytes after the long call = %x, SM3 = %x", s.Pend+100, got, want)}
			return
		}
		if s.Pend == 0 {
			one := sm3.SumSM3(buf)
			st2 := ref.NewSM3Stream()
			st2.Write(buf)
			w2 := st2.Sum()
			log.Add("giant call: SumSM3(%d): digest %s", s.Call, core.Hex8(one[:]))
			if !bytes.Equal(one[:], w2[:]) {
				res.Violation = &core.Violation{Class: "wrong-digest", Op: "SumSM3", Role: "SumSM3", Param: "single-call", Detail: fmt.Sprintf("SumSM3(%d bytes) = %x, SM3 = %x", s.Call, one, w2)}
			}
		}
	})
	if p {
		res.Violation = &core.Violation{Class: "panic", Op: "giant-call", Role: "hash", Param: "single-call", Detail: "panic: " + txt}
	}
	if res.Violation != nil {
		log.Add("VIOLATION %s", res.Violation.Detail)
	}
}

package props

import (
	"bytes"
	"encoding/json"
	"fmt"
	"math/big"

	"github.com/bilibili/smgo/sm2"

	"verif/sim/core"
	"verif/sim/dev/rng"
	"verif/sim/ref"
)

// C12 — generated and accepted keys are exactly the valid ones.
//
// S1 for GenerateKey (rejection sampling in 32-byte units from the simulated device);
// S5 for the predicates, exercised on keys produced by a faulty generator or
// corrupted in transit (bit flips, +n / +p aliases, swapped or truncated fields).

type c12Script struct {
	Op      string      `json:"op"` // GenerateKey | TestPrivateKey | DerivePublic | CheckOnCurve
	Content rng.Content `json:"content,omitempty"`
	Program []rng.Step  `json:"program,omitempty"`
	Priv    string      `json:"priv,omitempty"`
	X       string      `json:"x,omitempty"`
	Y       string      `json:"y,omitempty"`
	Note    string      `json:"note,omitempty"`
	// Before: coordinate pairs checked earlier in the SAME two buffers (CheckOnCurve only)
	Before [][2]string `json:"before,omitempty"`
	// FinalEOF (GenerateKey): the read that completes the accepted candidate also returns
	// io.EOF; ViaGlobal: the device is installed as crypto/rand.Reader
	FinalEOF  bool `json:"final_eof,omitempty"`
	ViaGlobal bool `json:"via_global,omitempty"`
}

type c12 struct{}

func init()            { core.Register(c12{}) }
func (c12) ID() string { return "C12" }

var c12Bound = []*big.Int{big.NewInt(0), big.NewInt(1), big.NewInt(2), nMinus2, nMinus1, ref.SM2N,
	new(big.Int).Add(ref.SM2N, big.NewInt(1)), max256, new(big.Int).Sub(ref.SM2P, big.NewInt(1)), ref.SM2P}

// systematic: boundary privs for TestPrivateKey/DerivePublic; each boundary as first
// generator candidate; boundary coordinate pairs.
func c12SysN() int { return len(c12Bound)*3 + 12 }

func (c12) Plan(tier string) core.Plan {
	if tier == "thorough" {
		return core.Plan{Systematic: c12SysN(), Seeded: 400000}
	}
	return core.Plan{Systematic: c12SysN(), Seeded: 30000}
}

func (c12) Meta() core.Meta {
	return core.Meta{
		Level: "exploration",
		Rule: "systematic: boundary values {0,1,2,n-2,n-1,n,n+1,2^256-1,p-1,p} as private key for TestPrivateKey and DerivePublic and as first generator candidate, plus boundary coordinate pairs; seeded: GenerateKey over streams with rejected prefixes (0, n-1, n, 2^256-1, >=n) under short reads/stalls; predicates on keys after wire faults (bit flips, +n/+p aliases, swapped/truncated/extended fields, solved small-x points). " +
			"non-trivial = a candidate was rejected, a delivery fault fired, or the argument is not a plain valid key; distinct = distinct (op, argument class, rejected-candidate classes, faults fired, expected verdict)",
		Components: map[string]string{"sm2.GenerateKey/TestPrivateKey/DerivePublic/CheckOnCurve": "real", "randomness source": "stub (simulated device)", "key transport": "stub (wire faults applied to literals)",
			"oracle": "sm2ref (range predicates on math/big, affine [d]G, curve equation)"},
		Assumptions: []string{"sm2ref is correct (anchors)", "TestPrivateKey is judged on 32-byte strings only (as stated)", "DerivePublic may return an error for any input it does not want (statement: [d]G or an error), but must not panic or return a wrong point",
			"CheckOnCurve must return false for coordinates that are not exactly 32 bytes"},
		FaultKinds: []string{"short", "stall", "cand:0", "cand:n-1", "cand:>=n", "wire:bitflip", "wire:+n", "wire:+p", "wire:swap", "wire:truncate", "wire:extend", "wire:offcurve", "wire:residual", "reused-receive-buffers", "final-read-carries-EOF"},
		ProbeNames: []string{"gen:rejected>=1", "gen:rejected>=3", "gen:cand=0", "priv:boundary", "curve:x>=p", "curve:offcurve", "curve:oncurve", "derive:error-ok"},
		StepUnit:   "reader calls + library calls",
	}
}

func c12GenContent(r *core.Rand, first *big.Int) rng.Content {
	var c rng.Content
	if first != nil {
		c.Candidates = append(c.Candidates, hx(ref.Pad32(first)))
	}
	for len(c.Candidates) < 8 && r.Chance(1, 2) {
		switch r.Intn(5) {
		case 0:
			c.Candidates = append(c.Candidates, hx(make([]byte, 32)))
		case 1:
			c.Candidates = append(c.Candidates, hx(ref.Pad32(nMinus1)))
		default:
			c.Candidates = append(c.Candidates, hx(highCandidate(r)))
		}
	}
	if r.Chance(1, 4) {
		c.Candidates = append(c.Candidates, hx(ref.Pad32(c12Bound[r.PickInt(1, 2, 3)])))
	}
	c.TailSeed = r.Uint64()
	return c
}

// sqrtP returns y with y^2 = a mod p (p = 3 mod 4), ok=false if a is not a square.
func sqrtP(a *big.Int) (*big.Int, bool) {
	e := new(big.Int).Add(ref.SM2P, big.NewInt(1))
	e.Rsh(e, 2)
	y := new(big.Int).Exp(a, e, ref.SM2P)
	if new(big.Int).Exp(y, big.NewInt(2), ref.SM2P).Cmp(new(big.Int).Mod(a, ref.SM2P)) != 0 {
		return nil, false
	}
	return y, true
}

func c12SqrtB() *big.Int {
	y, ok := sqrtP(ref.SM2B)
	if !ok {
		panic("b is not a square mod p")
	}
	return y
}

// smallXPoint finds a curve point with x small enough that x+p still fits 32 bytes.
func smallXPoint(r *core.Rand) (x, y *big.Int) {
	for try := 0; ; try++ {
		x = big.NewInt(int64(r.Intn(1 << 20)))
		if try == 0 && r.Chance(1, 3) {
			x = big.NewInt(int64(r.Intn(3))) // x = 0, 1, 2: the alias x+p is p, p+1, p+2
		}
		rhs := new(big.Int).Exp(x, big.NewInt(3), ref.SM2P)
		rhs.Add(rhs, new(big.Int).Mul(ref.SM2A, x))
		rhs.Add(rhs, ref.SM2B)
		rhs.Mod(rhs, ref.SM2P)
		if y, ok := sqrtP(rhs); ok {
			return x, y
		}
	}
}

// montXPoint finds a curve point whose x has a structured Montgomery form (see
// montStructured), with either root as y.
func montXPoint(r *core.Rand) (x, y *big.Int) {
	for {
		x = montStructured(r, ref.SM2P)
		rhs := new(big.Int).Exp(x, big.NewInt(3), ref.SM2P)
		rhs.Add(rhs, new(big.Int).Mul(ref.SM2A, x))
		rhs.Add(rhs, ref.SM2B)
		rhs.Mod(rhs, ref.SM2P)
		if y, ok := sqrtP(rhs); ok {
			if r.Chance(1, 2) {
				y.Sub(ref.SM2P, y)
			}
			return x, y
		}
	}
}

// structuredXPoint finds a curve point whose x is 2^(32j)*k - 1 (so that x+p differs
// from p-1 only in the high halves of some 64-bit words) and small enough for x+p to fit.
func structuredXPoint(r *core.Rand) (x, y *big.Int) {
	for {
		j := r.PickInt(1, 1, 2, 3, 4, 5, 6)
		x = new(big.Int).Lsh(big.NewInt(int64(1+r.Intn(1<<16))), uint(32*j))
		if r.Chance(1, 2) {
			x.Add(x, new(big.Int).Lsh(big.NewInt(int64(1+r.Intn(1<<16))), uint(32*r.Range(1, 6))))
		}
		x.Sub(x, big.NewInt(1))
		if x.BitLen() > 223 {
			continue
		}
		rhs := new(big.Int).Exp(x, big.NewInt(3), ref.SM2P)
		rhs.Add(rhs, new(big.Int).Mul(ref.SM2A, x))
		rhs.Add(rhs, ref.SM2B)
		rhs.Mod(rhs, ref.SM2P)
		if y, ok := sqrtP(rhs); ok {
			return x, y
		}
	}
}

func c12MutateCoord(r *core.Rand, x, y []byte) (nx, ny []byte, kind string) {
	nx, ny = append([]byte{}, x...), append([]byte{}, y...)
	if r.Chance(1, 8) {
		sx, sy := structuredXPoint(r)
		if r.Chance(3, 4) {
			return ref.Pad32(new(big.Int).Add(sx, ref.SM2P)), ref.Pad32(sy), "wire:+p"
		}
		return ref.Pad32(sx), ref.Pad32(sy), "none"
	}
	if r.Chance(1, 10) { // a valid point whose x has a structured Montgomery form (carry chains of the field code)
		mx, my := montXPoint(r)
		return ref.Pad32(mx), ref.Pad32(my), "none"
	}
	if r.Chance(1, 10) { // small y: the alias y+p fits in 32 bytes and must be refused
		sx, sy := smallYPoint(r)
		if r.Chance(3, 4) {
			return ref.Pad32(sx), ref.Pad32(new(big.Int).Add(sy, ref.SM2P)), "wire:+p"
		}
		return ref.Pad32(sx), ref.Pad32(sy), "none"
	}
	if r.Chance(1, 6) {
		if rx, ry, kind, ok := residualPoint(r); ok {
			return ref.Pad32(rx), ref.Pad32(ry), "wire:residual:" + kind
		}
	}
	switch r.Intn(6) {
	case 0:
		i := r.Intn(512)
		if i < 256 {
			nx[i/8] ^= 1 << uint(i%8)
		} else {
			ny[(i-256)/8] ^= 1 << uint(i%8)
		}
		return nx, ny, "wire:bitflip"
	case 1:
		return ny, nx, "wire:swap"
	case 2:
		return nx[:r.Range(0, 31)], ny, "wire:truncate"
	case 3:
		return nx, append(ny, byte(r.Intn(256))), "wire:extend"
	case 4:
		sx, sy := smallXPoint(r)
		if r.Chance(1, 2) {
			return ref.Pad32(new(big.Int).Add(sx, ref.SM2P)), ref.Pad32(sy), "wire:+p"
		}
		return ref.Pad32(sx), ref.Pad32(sy), "none"
	}
	return r.Bytes(32), r.Bytes(32), "wire:offcurve"
}

func (c12) Generate(idx int, r *core.Rand, tier string) core.Script {
	nb := len(c12Bound)
	if idx < c12SysN() {
		cr := core.NewRand(core.Mix(0xC12, "sys", uint64(idx)))
		switch {
		case idx < nb:
			return &c12Script{Op: "TestPrivateKey", Priv: hx(ref.Pad32(c12Bound[idx])), Note: "sys boundary"}
		case idx < 2*nb:
			return &c12Script{Op: "DerivePublic", Priv: hx(ref.Pad32(c12Bound[idx-nb])), Note: "sys boundary"}
		case idx < 3*nb:
			return &c12Script{Op: "GenerateKey", Content: rng.Content{Candidates: []string{hx(ref.Pad32(c12Bound[idx-2*nb]))}, TailSeed: cr.Uint64()}, Note: "sys boundary first candidate"}
		}
		g := ref.G()
		sx, sy := smallXPoint(cr)
		pairs := [][2][]byte{
			{ref.Pad32(g.X), ref.Pad32(g.Y)},
			{ref.Pad32(g.X), ref.Pad32(new(big.Int).Sub(ref.SM2P, g.Y))},
			{ref.Pad32(sx), ref.Pad32(sy)},
			{ref.Pad32(new(big.Int).Add(sx, ref.SM2P)), ref.Pad32(sy)},
			{ref.Pad32(new(big.Int).Sub(ref.SM2P, big.NewInt(1))), ref.Pad32(new(big.Int).Sub(ref.SM2P, big.NewInt(1)))},
			{make([]byte, 32), make([]byte, 32)},
			{ref.Pad32(ref.SM2P), ref.Pad32(g.Y)},
			{ref.Pad32(g.Y), ref.Pad32(g.X)},
			// x = 0 is on the curve (b is a square): its alias x = p must be refused
			{ref.Pad32(big.NewInt(0)), ref.Pad32(c12SqrtB())},
			{ref.Pad32(ref.SM2P), ref.Pad32(c12SqrtB())},
			{ref.Pad32(ref.SM2P), ref.Pad32(new(big.Int).Sub(ref.SM2P, c12SqrtB()))},
			{ref.Pad32(c12SqrtB()), ref.Pad32(ref.SM2P)},
		}
		pr := pairs[idx-3*nb]
		return &c12Script{Op: "CheckOnCurve", X: hx(pr[0]), Y: hx(pr[1]), Note: "sys coordinate pair"}
	}
	w := r.Split("workload")
	f := r.Split("faults")
	switch w.Weighted(4, 3, 3, 4) {
	case 0:
		s := &c12Script{Op: "GenerateKey", Content: c12GenContent(w, nil), ViaGlobal: w.Chance(1, 8)}
		if f.Chance(1, 10) {
			s.FinalEOF = true
			return s
		}
		if f.Chance(1, 3) {
			for i := f.Range(1, 8); i > 0; i-- {
				switch f.Intn(3) {
				case 0:
					s.Program = append(s.Program, rng.Step{Kind: "short", N: f.Range(1, 31)})
				case 1:
					s.Program = append(s.Program, rng.Step{Kind: "stall"})
				default:
					s.Program = append(s.Program, rng.Step{Kind: "full"})
				}
			}
		}
		return s
	case 1, 2:
		op := "TestPrivateKey"
		if w.Chance(1, 2) {
			op = "DerivePublic"
		}
		var priv []byte
		switch w.Intn(6) {
		case 0:
			priv = ref.Pad32(c12Bound[w.Intn(len(c12Bound))])
		case 1: // valid key + n (alias of the same residue), if it fits
			v := new(big.Int).Add(big.NewInt(int64(w.Intn(1<<30))), ref.SM2N)
			priv = ref.Pad32(v)
		case 2: // bit flip of a boundary value
			priv = ref.Pad32(c12Bound[w.PickInt(3, 4, 5)])
			i := w.Intn(256)
			priv[i/8] ^= 1 << uint(i%8)
		case 3:
			priv = highCandidate(w)
		default:
			priv = genPriv(w)
		}
		if op == "DerivePublic" && w.Chance(1, 10) {
			priv = priv[:w.Range(0, 31)]
		}
		return &c12Script{Op: op, Priv: hx(priv)}
	}
	// CheckOnCurve on a public key received over the wire
	p := ref.MulG(randScalar(w))
	x, y := ref.Pad32(p.X), ref.Pad32(p.Y)
	note := "none"
	if w.Chance(3, 4) {
		x, y, note = c12MutateCoord(w, x, y)
	}
	sc := &c12Script{Op: "CheckOnCurve", X: hx(x), Y: hx(y), Note: note}
	if w.Chance(1, 3) { // a validator that reuses its receive buffers
		for i := w.Range(1, 2); i > 0; i-- {
			q := ref.MulG(randScalar(w))
			sc.Before = append(sc.Before, [2]string{hx(ref.Pad32(q.X)), hx(ref.Pad32(q.Y))})
		}
	}
	return sc
}

func (c12) Decode(raw json.RawMessage) (core.Script, error) {
	var s c12Script
	if err := json.Unmarshal(raw, &s); err != nil {
		return nil, err
	}
	return &s, nil
}

func privClass(priv []byte) string {
	if len(priv) != 32 {
		return "len!=32"
	}
	d := ref.Int(priv)
	for i, b := range c12Bound {
		if d.Cmp(b) == 0 {
			return []string{"0", "1", "2", "n-2", "n-1", "n", "n+1", "2^256-1", "p-1", "p"}[i]
		}
	}
	if d.Cmp(ref.SM2N) > 0 {
		return ">n"
	}
	return "valid"
}

func (c12) Execute(sc core.Script, keep bool) *core.Result {
	s := sc.(*c12Script)
	res := core.NewResult()
	log := &core.Log{Keep: keep}
	defer func() {
		res.EventHash = log.Hash()
		res.Steps = log.Steps()
		res.LogLines = log.Lines
	}()
	sm2Canon()
	viol := func(class, role, param, detail string) {
		res.Violation = &core.Violation{Class: class, Op: s.Op, Role: role, Param: param, Detail: detail}
		log.Add("VIOLATION %s %s %s: %s", class, role, param, detail)
	}
	if s.Note != "" && s.Note != "none" && len(s.Note) > 5 && s.Note[:5] == "wire:" {
		if len(s.Note) > 13 && s.Note[:13] == "wire:residual" {
			res.Faults["wire:residual"]++
		} else {
			res.Faults[s.Note]++
		}
	}
	switch s.Op {
	case "GenerateKey":
		d0, x0, y0, consumed0, rejected, err0 := ref.GenerateKey(rng.New(s.Content, nil, nil))
		if err0 != nil {
			panic("ref.GenerateKey cannot fail on an endless device")
		}
		classes := ""
		pre := s.Content.Prefix()
		for i := 0; i < rejected; i++ {
			c := privClass(pre[32*i : 32*i+32])
			k := "cand:>=n"
			if c == "0" {
				k = "cand:0"
				res.Probes["gen:cand=0"]++
			} else if c == "n-1" {
				k = "cand:n-1"
			}
			res.Faults[k]++
			classes += k + ","
		}
		if rejected >= 1 {
			res.Probes["gen:rejected>=1"]++
		}
		if rejected >= 3 {
			res.Probes["gen:rejected>=3"]++
		}
		prog := s.Program
		if s.FinalEOF {
			prog = nil
			for i := 0; i < rejected; i++ {
				prog = append(prog, rng.Step{Kind: "full"})
			}
			prog = append(prog, rng.Step{Kind: "err", N: 32, Err: "EOF"})
			res.Faults["final-read-carries-EOF"]++
		}
		dev := rng.New(s.Content, prog, log)
		var d1, x1, y1 []byte
		var err1 error
		p, txt, _, _ := core.Catch(func() {
			c := sm2Call{Op: "GenerateKey", ViaGlobal: s.ViaGlobal}
			outs, e1 := c.run(dev)
			d1, x1, y1, err1 = outs[0], outs[1], outs[2], e1
		})
		for k, v := range dev.Fired {
			res.Faults[k] += v
		}
		log.Add("ref: rejected=%d consumed=%d d=%s; lib: panic=%v err=%v consumed=%d d=%s", rejected, consumed0, core.Hex8(d0), p, err1 != nil, dev.Delivered, core.Hex8(d1))
		res.Fingerprint = core.Fp(s.Op, classes, core.FaultSet(dev.Fired))
		res.Nontrivial = rejected > 0 || len(dev.Fired) > 0
		first := "none"
		if rejected > 0 {
			first = privClass(pre[:32])
		}
		switch {
		case p:
			viol("panic", "generator", "first-cand="+first, "GenerateKey panicked: "+txt)
		case err1 != nil:
			viol("spurious-error", "generator", "first-cand="+first, fmt.Sprintf("GenerateKey failed on a healthy stream: %v", err1))
		case !bytes.Equal(d1, d0):
			libIdx := dev.Delivered/32 - 1
			param := "over-rejected"
			if libIdx >= 0 && libIdx < rejected {
				param = "accepted-candidate=" + privClass(pre[32*libIdx:32*libIdx+32])
			}
			viol("wrong-key", "private-key", param, fmt.Sprintf("d = %x, first candidate in [1,n-2] is %x (after %d rejected)", d1, d0, rejected))
		case !bytes.Equal(x1, x0) || !bytes.Equal(y1, y0):
			viol("wrong-result", "public-key", "[d]G", fmt.Sprintf("public key (%x,%x) != [d]G = (%x,%x)", x1, y1, x0, y0))
		case dev.Delivered != consumed0:
			viol("bytes-consumed", "reader", "first-cand="+first, fmt.Sprintf("consumed %d bytes, expected %d", dev.Delivered, consumed0))
		}
	case "TestPrivateKey":
		priv := unhx(s.Priv)
		cl := privClass(priv)
		if cl != "valid" {
			res.Probes["priv:boundary"]++
			res.Nontrivial = true
		}
		want := ref.KeyValid(ref.Int(priv))
		var got int
		p, txt, _, _ := core.Catch(func() { got = sm2.TestPrivateKey(priv) })
		log.Add("TestPrivateKey(%s) class=%s want=%v got=%d panic=%v", core.Hex8(priv), cl, want, got, p)
		res.Fingerprint = core.Fp(s.Op, cl, fmt.Sprint(want))
		switch {
		case p:
			viol("panic", "private-key", cl, "TestPrivateKey panicked: "+txt)
		case len(priv) != 32:
			// outside the statement
		case want && got != 0:
			viol("rejected-valid", "private-key", cl, fmt.Sprintf("valid key %x rejected (%d)", priv, got))
		case !want && got == 0:
			viol("accepted-invalid", "private-key", cl, fmt.Sprintf("key %x outside [1,n-2] accepted", priv))
		}
	case "DerivePublic":
		priv := unhx(s.Priv)
		cl := privClass(priv)
		if cl != "valid" {
			res.Nontrivial = true
			res.Probes["priv:boundary"]++
		}
		var x1, y1 []byte
		var err1 error
		p, txt, _, _ := core.Catch(func() { x1, y1, err1 = sm2.DerivePublic(priv) })
		log.Add("DerivePublic(%s) class=%s panic=%v err=%v -> %s", core.Hex8(priv), cl, p, err1 != nil, core.Hex8(append(append([]byte{}, x1...), y1...)))
		res.Fingerprint = core.Fp(s.Op, cl, fmt.Sprint(err1 != nil))
		switch {
		case p:
			viol("panic", "private-key", cl, "DerivePublic panicked: "+txt)
		case err1 != nil:
			res.Probes["derive:error-ok"]++
			if len(x1) != 0 || len(y1) != 0 {
				viol("output-with-error", "public-key", cl, "error returned together with coordinates")
			} else if cl == "valid" {
				viol("rejected-valid", "private-key", cl, fmt.Sprintf("DerivePublic refused valid key %x: %v", priv, err1))
			}
		default:
			pt := ref.MulG(ref.Int(priv))
			if pt.Inf {
				viol("wrong-result", "public-key", cl, fmt.Sprintf("[d]G is the point at infinity but coordinates (%x,%x) were returned without error", x1, y1))
			} else if !bytes.Equal(x1, ref.Pad32(pt.X)) || !bytes.Equal(y1, ref.Pad32(pt.Y)) {
				viol("wrong-result", "public-key", cl, fmt.Sprintf("DerivePublic(%x) = (%x,%x), [d]G = (%x,%x)", priv, x1, y1, pt.X, pt.Y))
			}
		}
	case "CheckOnCurve":
		x, y := unhx(s.X), unhx(s.Y)
		want := len(x) == 32 && len(y) == 32 && ref.OnCurve(ref.Int(x), ref.Int(y))
		cl := "oncurve"
		switch {
		case len(x) != 32 || len(y) != 32:
			cl = "len!=32"
		case ref.Int(x).Cmp(ref.SM2P) >= 0 || ref.Int(y).Cmp(ref.SM2P) >= 0:
			cl = "coord>=p"
			res.Probes["curve:x>=p"]++
		case !want:
			cl = "offcurve"
			res.Probes["curve:offcurve"]++
		default:
			res.Probes["curve:oncurve"]++
		}
		res.Nontrivial = cl != "oncurve" || (s.Note != "" && s.Note != "none") || len(s.Before) > 0
		bx, by := make([]byte, 0, 64), make([]byte, 0, 64)
		for bi, b := range s.Before {
			res.Faults["reused-receive-buffers"]++
			bx, by = append(bx[:0], unhx(b[0])...), append(by[:0], unhx(b[1])...)
			w0 := len(bx) == 32 && len(by) == 32 && ref.OnCurve(ref.Int(bx), ref.Int(by))
			var g0 bool
			p0, _, _, _ := core.Catch(func() { g0 = sm2.CheckOnCurve(bx, by) })
			log.Add("before#%d want=%v got=%v panic=%v", bi, w0, g0, p0)
			if p0 || g0 != w0 {
				viol("wrong-verdict-in-history", "public-key", "earlier-check", fmt.Sprintf("earlier CheckOnCurve(%x,%x): want %v got %v panic %v", bx, by, w0, g0, p0))
				return res
			}
		}
		if len(s.Before) > 0 {
			bx, by = append(bx[:0], x...), append(by[:0], y...)
			x, y = bx, by
			cl += "/after-earlier-checks-in-same-buffers"
		}
		var got bool
		p, txt, _, _ := core.Catch(func() { got = sm2.CheckOnCurve(x, y) })
		log.Add("CheckOnCurve(%s,%s) class=%s want=%v got=%v panic=%v", core.Hex8(x), core.Hex8(y), cl, want, got, p)
		res.Fingerprint = core.Fp(s.Op, cl, s.Note)
		switch {
		case p:
			viol("panic", "public-key", cl, "CheckOnCurve panicked: "+txt)
		case want && !got:
			viol("rejected-valid", "public-key", cl, fmt.Sprintf("on-curve point (%x,%x) rejected", x, y))
		case !want && got:
			viol("accepted-invalid", "public-key", cl, fmt.Sprintf("(%x,%x) accepted but it is %s", x, y, cl))
		}
	}
	return res
}

func (c12) Shrinks(sc core.Script) []core.Script {
	s := sc.(*c12Script)
	cp := func() *c12Script {
		raw, _ := json.Marshal(s)
		var c c12Script
		json.Unmarshal(raw, &c)
		return &c
	}
	var out []core.Script
	if len(s.Before) > 0 {
		c := cp()
		c.Before = nil
		out = append(out, c)
		c = cp()
		c.Before = c.Before[1:]
		out = append(out, c)
	}
	if len(s.Program) > 0 {
		c := cp()
		c.Program = nil
		out = append(out, c)
	}
	for _, rg := range core.DropRanges(len(s.Content.Candidates)) {
		c := cp()
		c.Content.Candidates = append(c.Content.Candidates[:rg[0]], c.Content.Candidates[rg[1]:]...)
		out = append(out, c)
	}
	return out
}

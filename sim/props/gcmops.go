package props

import (
	"crypto/cipher"
	"fmt"

	"github.com/bilibili/smgo/sm4"

	"verif/sim/core"
)

// aeadSpec describes one cipher.AEAD over SM4.
type aeadSpec struct {
	Key       string `json:"key"` // 16 bytes hex
	NonceSize int    `json:"nonce_size"`
	TagSize   int    `json:"tag_size"`
}

type gcmAble interface {
	NewGCM(nonceSize, tagSize int) (cipher.AEAD, error)
}

// mkAEAD builds the block and AEAD on the requested implementation path (S6). On the
// portable path crypto/cipher's own GCM serves the block, which supports only
// (nonce 12, tag 12..16) and (any nonce, tag 16); specs outside that are normalised.
// Must be called while only one task runs (it flips the package-level path switch).
func mkAEAD(spec aeadSpec, asm bool) (cipher.AEAD, cipher.Block, aeadSpec, error) {
	return mkAEADKey(spec, unhx(spec.Key), asm)
}

// mkAEADKey is mkAEAD with the key passed in the caller's own slice.
func mkAEADKey(spec aeadSpec, key []byte, asm bool) (cipher.AEAD, cipher.Block, aeadSpec, error) {
	prev := sm4.VerifSetAsm(asm)
	defer sm4.VerifSetAsm(prev)
	blk, err := sm4.NewCipher(key)
	if err != nil {
		return nil, nil, spec, err
	}
	if ga, ok := blk.(gcmAble); ok && asm {
		if spec.NonceSize == 12 && spec.TagSize == 16 {
			a, err := cipher.NewGCM(blk)
			return a, blk, spec, err
		}
		if spec.TagSize == 16 {
			a, err := cipher.NewGCMWithNonceSize(blk, spec.NonceSize)
			return a, blk, spec, err
		}
		if spec.NonceSize == 12 {
			a, err := cipher.NewGCMWithTagSize(blk, spec.TagSize)
			return a, blk, spec, err
		}
		a, err := ga.NewGCM(spec.NonceSize, spec.TagSize)
		return a, blk, spec, err
	}
	if spec.NonceSize != 12 && spec.TagSize != 16 {
		spec.TagSize = 16
	}
	var a cipher.AEAD
	if spec.NonceSize == 12 {
		a, err = cipher.NewGCMWithTagSize(blk, spec.TagSize)
	} else {
		a, err = cipher.NewGCMWithNonceSize(blk, spec.NonceSize)
	}
	return a, blk, spec, err
}

// mkAEADHistory is mkAEADKey preceded by other AEAD constructions on the SAME Block
// (different nonce/tag sizes), as a program that derives several AEADs from one cipher
// does. The earlier AEADs are used once (a Seal) and dropped.
func mkAEADHistory(spec aeadSpec, key []byte, asm bool, prior []aeadSpec) (cipher.AEAD, cipher.Block, aeadSpec, error) {
	if len(prior) == 0 {
		return mkAEADKey(spec, key, asm)
	}
	prev := sm4.VerifSetAsm(asm)
	defer sm4.VerifSetAsm(prev)
	blk, err := sm4.NewCipher(key)
	if err != nil {
		return nil, nil, spec, err
	}
	build := func(sp aeadSpec) (cipher.AEAD, aeadSpec, error) {
		if ga, ok := blk.(gcmAble); ok && asm {
			switch {
			case sp.NonceSize == 12 && sp.TagSize == 16:
				a, err := cipher.NewGCM(blk)
				return a, sp, err
			case sp.TagSize == 16:
				a, err := cipher.NewGCMWithNonceSize(blk, sp.NonceSize)
				return a, sp, err
			case sp.NonceSize == 12:
				a, err := cipher.NewGCMWithTagSize(blk, sp.TagSize)
				return a, sp, err
			}
			a, err := ga.NewGCM(sp.NonceSize, sp.TagSize)
			return a, sp, err
		}
		if sp.NonceSize != 12 && sp.TagSize != 16 {
			sp.TagSize = 16
		}
		if sp.NonceSize == 12 {
			a, err := cipher.NewGCMWithTagSize(blk, sp.TagSize)
			return a, sp, err
		}
		a, err := cipher.NewGCMWithNonceSize(blk, sp.NonceSize)
		return a, sp, err
	}
	for _, p := range prior {
		if a, eff, err := build(p); err == nil {
			a.Seal(nil, make([]byte, eff.NonceSize), []byte("earlier traffic"), nil)
		}
	}
	a, eff, err := build(spec)
	return a, blk, eff, err
}

// AsmAvailable reports whether the accelerated path can run on this machine.
func AsmAvailable() bool { return sm4.VerifAsmDefault }

func genAEADSpec(r *core.Rand) aeadSpec {
	s := aeadSpec{Key: hx(r.Bytes(16)), NonceSize: 12, TagSize: 16}
	if r.Chance(1, 3) {
		s.NonceSize = r.PickInt(1, 7, 8, 11, 13, 15, 16, 17, 31, 32, 33, 64, 127, 128, 129, 200, 300)
	}
	if r.Chance(1, 3) {
		s.TagSize = r.Range(12, 16)
	}
	return s
}

// slackBuf returns a heap slice of len n and cap c with at least 64 bytes of private
// slack on both sides, so that a stray over-read in the code under test cannot surface
// as a misattributed crash in checks that are not about memory safety.
func slackBuf(n, c int) []byte {
	if c < n {
		c = n
	}
	b := make([]byte, c+160)
	return b[80 : 80+n : 80+c]
}

func cloneSlack(b []byte) []byte {
	c := slackBuf(len(b), len(b))
	copy(c, b)
	return c
}

func seededBytes(seed uint64, n int, zero bool) []byte {
	b := make([]byte, n)
	if !zero {
		core.NewRand(seed).Fill(b)
	}
	return b
}

// dstSpec is the layout of the destination slice handed to an append-style call.
type dstSpec struct {
	Mode  string `json:"mode"`            // nil | fresh | inplace | inplace-prefix
	Len   int    `json:"len,omitempty"`   // fresh: len(dst); inplace-prefix: bytes of dst in front of the input (a record header)
	Spare int    `json:"spare,omitempty"` // fresh: cap(dst)-len(dst); inplace*: capacity behind the input
}

func (d dstSpec) class(needed int) string {
	switch d.Mode {
	case "nil":
		return "dst=nil"
	case "inplace":
		if d.Spare >= needed {
			return "dst=inplace/cap>=needed"
		}
		return "dst=inplace/cap<needed"
	case "inplace-prefix":
		if d.Spare >= needed {
			return "dst=inplace-behind-prefix/cap>=needed"
		}
		return "dst=inplace-behind-prefix/cap<needed"
	}
	l := "len0"
	if d.Len > 0 {
		l = "len>0"
	}
	switch {
	case d.Spare == 0 && needed > 0:
		return "dst=" + l + "/cap=len"
	case d.Spare < needed:
		return "dst=" + l + "/spare<needed"
	case d.Spare == needed:
		return "dst=" + l + "/spare==needed"
	}
	return "dst=" + l + "/spare>needed"
}

func genDst(r *core.Rand, needed int, allowInplace bool) dstSpec {
	switch r.Weighted(3, 8, 3) {
	case 0:
		return dstSpec{Mode: "nil"}
	case 2:
		if allowInplace && r.Chance(1, 3) {
			// dst is the header in front of the input, the output goes exactly where the input is
			d := dstSpec{Mode: "inplace-prefix", Len: r.PickInt(1, 5, 12, 13, 16), Spare: needed + r.PickInt(0, 0, 1, 16, 100)}
			if r.Chance(1, 4) {
				d.Spare = r.Intn(needed + 1)
			}
			return d
		}
		if allowInplace {
			if r.Chance(2, 3) {
				return dstSpec{Mode: "inplace", Spare: needed + r.PickInt(0, 0, 1, 16, 100)}
			}
			return dstSpec{Mode: "inplace", Spare: r.Intn(needed + 1)}
		}
	}
	d := dstSpec{Mode: "fresh", Len: r.PickInt(0, 0, 1, 7, 16, 33)}
	if r.Chance(1, 60) { // a long prefix: bulk paths of whatever moves it on reallocation
		d.Len = r.PickInt(2047, 2048, 2052, 2055, 4099, 5006, 66005)
	}
	switch r.Intn(5) {
	case 0:
		d.Spare = 0
	case 1:
		if needed > 0 {
			d.Spare = r.Intn(needed)
		}
	case 2:
		d.Spare = needed
	case 3:
		d.Spare = needed + r.PickInt(1, 15, 16, 17, 64, 300)
	default:
		d.Spare = needed + 1
	}
	return d
}

// mkDst materialises a fresh destination with a recognisable prefix.
func mkDst(d dstSpec) []byte {
	if d.Mode == "nil" {
		return nil
	}
	b := slackBuf(d.Len, d.Len+d.Spare)
	for i := range b {
		b[i] = byte(0xD0 + i)
	}
	return b
}

func errStr(e error) string {
	if e == nil {
		return "nil"
	}
	return fmt.Sprint(e)
}

// inplaceBuf lays out an in-place call: dst is the first d.Len bytes (a recognisable
// prefix; zero for the plain idiom), the input follows immediately, then d.Spare... more
// exactly: cap behind the input start is d.Spare for mode inplace (historical meaning:
// cap(input)-len(input)) and for inplace-prefix. The bytes behind the input carry a canary.
func inplaceBuf(d dstSpec, input []byte) (buf, dst, in []byte) {
	l := 0
	if d.Mode == "inplace-prefix" {
		l = d.Len
	}
	buf = slackBuf(l+len(input), l+len(input)+d.Spare)
	for i := 0; i < l; i++ {
		buf[i] = byte(0xD0 + i)
	}
	copy(buf[l:], input)
	full := buf[:cap(buf)]
	for j := len(buf); j < len(full); j++ {
		full[j] = byte(0x3C ^ j)
	}
	return buf, buf[:l], buf[l : l+len(input)]
}

// inplaceCanaryOK checks the bytes behind position from in an in-place buffer.
func inplaceCanaryOK(buf []byte, from int) bool {
	full := buf[:cap(buf)]
	for j := from; j < len(full); j++ {
		if full[j] != byte(0x3C^j) {
			return false
		}
	}
	return true
}

// gcmCanon is the canonical prelude of every GCM scenario: one Seal and one Open of a
// fixed message on the main thread, so that whatever the accelerated routines leave in
// thread-local CPU state (vector registers the Go runtime never touches) is the same at
// the start of every scenario, whatever ran before it in this process.
var gcmCanonAEAD cipher.AEAD

func gcmCanon() {
	if !AsmAvailable() {
		return
	}
	if gcmCanonAEAD == nil {
		a, _, _, err := mkAEAD(aeadSpec{Key: "00112233445566778899aabbccddeeff", NonceSize: 12, TagSize: 16}, true)
		if err != nil {
			panic(err)
		}
		gcmCanonAEAD = a
	}
	// a failure here is not this scenario's finding; the scenarios themselves will show it
	core.Catch(func() {
		nonce := []byte("canonical-12")
		msg := []byte("canonical prelude: thirty-three b")
		ct := gcmCanonAEAD.Seal(nil, nonce, msg, nonce[:5])
		gcmCanonAEAD.Open(nil, nonce, ct, nonce[:5])
	})
}

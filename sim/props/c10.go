package props

import (
	"bytes"
	"crypto/cipher"
	"encoding/json"
	"fmt"
	"hash"
	"math/big"
	"sort"
	"strings"

	"github.com/bilibili/smgo/sm2"
	"github.com/bilibili/smgo/sm3"

	"verif/sim/core"
	"verif/sim/dev/rng"
	"verif/sim/ref"
)

// C10 — buffer contracts: dst is appended to, inputs are never modified.
//
// Seam S4 + histories: clients operate on a small pool of buffers that is reused across
// the operations of a run, with the destination layout (len, cap, aliasing) of every
// append-style call decided by the simulator. Invariants after every operation:
// result == old dst bytes || output of the dst=nil twin on private copies; every live
// pool buffer equals its snapshot; repeating the call gives the same answer.

type c10Buf struct {
	Len  int    `json:"len"`
	Seed uint64 `json:"seed"`
	Zero bool   `json:"zero,omitempty"`
}

type c10Op struct {
	Kind      string  `json:"kind"` // Seal | Open | Sum | Block | SM2
	A         int     `json:"a,omitempty"`
	M         int     `json:"m,omitempty"`
	D         int     `json:"d,omitempty"`
	NonceSeed uint64  `json:"nonce_seed,omitempty"`
	CT        int     `json:"ct,omitempty"`      // Open: index of the Seal op whose output is opened
	Corrupt   int     `json:"corrupt,omitempty"` // Open: >0 flips bit Corrupt-1 of a copy of the ciphertext (failure expected)
	WrongAAD  bool    `json:"wrong_aad,omitempty"`
	OnPool    bool    `json:"on_pool,omitempty"` // Open in place on the pooled (long-lived) ciphertext buffer itself, not on a scratch copy
	Dst       dstSpec `json:"dst"`
	Repeat    bool    `json:"repeat,omitempty"`
	Dec       bool    `json:"dec,omitempty"`
	Same      bool    `json:"same,omitempty"`
	SM2Op     string  `json:"sm2op,omitempty"`    // Verify | ZA | DerivePublic | Sign
	Live      bool    `json:"live,omitempty"`     // Sum: on one of the scenario's two long-lived hash values (A selects it) instead of a fresh one
	Reset     bool    `json:"reset,omitempty"`    // Sum on a long-lived hash value: Reset first
	Scribble  bool    `json:"scribble,omitempty"` // the caller overwrites a result the library allocated for it (it owns it) before carrying on
	AadBehind bool    `json:"aad_behind,omitempty"` // Seal into a fresh dst: one record holds header | room for the result | additional data, and cap(dst) reaches over all of it
	Cold      bool    `json:"cold,omitempty"`     // Seal/Open/Block: the call is made on an OS thread that never ran library code (seam S7)
}

// catchOn is core.Catch around a call made on the current or on a cold thread.
func catchOn(cold bool, f func()) (bool, string, uintptr, bool) {
	return core.Catch(func() { core.On(cold, f) })
}

type c10Script struct {
	Asm   bool       `json:"asm"`
	Prior []aeadSpec `json:"prior,omitempty"` // AEADs built earlier on the same Block as AEADs[0]
	AEADs []aeadSpec `json:"aeads"`
	Msgs  []c10Buf   `json:"msgs"`
	AADs  []c10Buf   `json:"aads"`
	Ops   []c10Op    `json:"ops"`
}

type c10 struct{}

func init()            { core.Register(c10{}) }
func (c10) ID() string { return "C10" }

func (c10) Plan(tier string) core.Plan {
	if tier == "thorough" {
		return core.Plan{Systematic: c10SysN, Seeded: 1500000}
	}
	return core.Plan{Systematic: c10SysN, Seeded: 120000}
}

// systematic: {Seal, Open, Sum} x every dst class x {pt 0,1,16,17} x {asm, portable}
var c10SysDst = []func(needed int) dstSpec{
	func(n int) dstSpec { return dstSpec{Mode: "nil"} },
	func(n int) dstSpec { return dstSpec{Mode: "fresh", Len: 0, Spare: 0} },
	func(n int) dstSpec { return dstSpec{Mode: "fresh", Len: 5, Spare: 0} },
	func(n int) dstSpec { return dstSpec{Mode: "fresh", Len: 0, Spare: n} },
	func(n int) dstSpec { return dstSpec{Mode: "fresh", Len: 5, Spare: n} },
	func(n int) dstSpec { return dstSpec{Mode: "fresh", Len: 5, Spare: n + 40} },
	func(n int) dstSpec { return dstSpec{Mode: "fresh", Len: 0, Spare: n + 1} },
	func(n int) dstSpec {
		if n > 0 {
			return dstSpec{Mode: "fresh", Len: 5, Spare: n - 1}
		}
		return dstSpec{Mode: "fresh", Len: 5, Spare: 3}
	},
	func(n int) dstSpec { return dstSpec{Mode: "inplace", Spare: n + 16} },
	func(n int) dstSpec { return dstSpec{Mode: "inplace", Spare: 0} },
}
var c10SysPt = []int{0, 1, 16, 17}

const c10SysN = 3 * 10 * 4 * 2

func (c10) Meta() core.Meta {
	return core.Meta{
		Level: "exploration",
		Rule: "results the library allocates itself (dst = nil; digests, ZA values, signatures, derived keys) are adopted into the pool as the caller's memory, half of them overwritten by their owner, and must survive every later operation (Sum also on two long-lived hash values); systematic: {Seal, Open, Sum} x 10 destination layouts (nil; len 0/5 with cap=len, spare<needed, ==needed, >needed; in-place with cap >= / < needed) x plaintext lengths {0,1,16,17} x {assembly, portable}; seeded: histories of <=14 operations on a shared pool (Seal, Open of earlier outputs incl. twice and corrupted copies, Sum(b), Encrypt/Decrypt with dst==src, SM2 Verify/ZA/DerivePublic/Sign) with layouts and length classes drawn per call. " +
			"non-trivial = an op used a non-nil destination, was repeated, or opened a corrupted copy; distinct = distinct (path, multiset of (op, dst class, length class), pool sharing shape)",
		Components: map[string]string{"sm4 Seal/Open (amd64 assembly: sealAsm/openAsm, ensureCapacity)": "real", "crypto/cipher generic GCM over portable sm4 (path switch off)": "real",
			"sm3 Sum": "real", "sm4 Encrypt/Decrypt": "real", "sm2 Verify/ZA/DerivePublic/Sign": "real", "allocator (dst layout, aliasing)": "stub (simulated placement)", "arm64 assembly": "not run",
			"oracle": "the library's own dst=nil twin on private copies, executed before the perturbed call"},
		Assumptions: []string{"inexact overlap of dst and input is outside the AEAD contract and never generated", "bytes of dst[len:cap] beyond the result are not judged unless an input of the same call lies there (additional data right behind the result)", "pointer identity of the result is not required",
			"for the in-place idiom the overlapped input is exempt from the unchanged-input invariant", "on Open failure only the error and the inputs are judged here (no-plaintext is C07)"},
		FaultKinds: []string{"dst=nil", "dst=len0/cap=len", "dst=len>0/cap=len", "dst=*/spare<needed", "dst=*/spare==needed", "dst=*/spare>needed", "dst=inplace/cap>=needed", "dst=inplace/cap<needed", "repeat", "open-corrupted", "open-wrong-aad", "block-inplace", "thread:cold-call", "sum-on-long-lived-hash", "result-adopted", "result-overwritten-by-owner", "aad-behind-result-in-cap(dst)"},
		ProbeNames: []string{"reused-spare-capacity", "reallocated", "open-twice", "empty-plaintext", "tail-1..15", "pool-buffer-shared>=2"},
		StepUnit:   "library calls",
	}
}

func c10GenLen(r *core.Rand) int {
	if r.Chance(1, 150) { // well beyond a kilobyte: many rounds of the widest kernel, 16-bit and page boundaries
		return r.PickInt(4095, 4096, 4097, 5000, 65535, 65536, 65537, 70001)
	}
	if r.Chance(1, 12) {
		return r.Len(1100)
	}
	return r.PickInt(0, 1, 5, 15, 16, 17, 31, 32, 33, 63, 64, 65, 100, 127, 128, 129, 255, 256, 263)
}

func (c10) Generate(idx int, r *core.Rand, tier string) core.Script {
	if idx < c10SysN {
		i := idx
		asm := i%2 == 0
		i /= 2
		pt := c10SysPt[i%4]
		i /= 4
		di := i % 10
		i /= 10
		kind := []string{"Seal", "Open", "Sum"}[i]
		s := &c10Script{Asm: asm, AEADs: []aeadSpec{{Key: hx(bytes.Repeat([]byte{byte(idx)}, 16)), NonceSize: 12, TagSize: 16}},
			Msgs: []c10Buf{{Len: pt, Seed: uint64(idx)}}, AADs: []c10Buf{{Len: 3, Seed: 9}}}
		switch kind {
		case "Seal":
			s.Ops = []c10Op{{Kind: "Seal", NonceSeed: 1, Dst: c10SysDst[di](pt + 16)}}
		case "Open":
			s.Ops = []c10Op{{Kind: "Seal", NonceSeed: 1, Dst: dstSpec{Mode: "nil"}}, {Kind: "Open", CT: 0, Dst: c10SysDst[di](pt), Repeat: true}}
		default:
			d := c10SysDst[di](32)
			if d.Mode == "inplace" {
				d = dstSpec{Mode: "fresh", Len: 32, Spare: 32}
			}
			s.Ops = []c10Op{{Kind: "Sum", Dst: d}}
		}
		return s
	}
	w := r.Split("workload")
	s := &c10Script{Asm: w.Chance(3, 4)}
	for i := w.Range(1, 2); i > 0; i-- {
		s.AEADs = append(s.AEADs, genAEADSpec(w))
	}
	if w.Chance(1, 6) {
		s.Prior = append(s.Prior, genAEADSpec(w))
	}
	big := w.Chance(1, 40) // records of several kilobytes (pooled-buffer thresholds, many kernel rounds)
	for i := w.Range(1, 3); i > 0; i-- {
		l := c10GenLen(w)
		if big {
			l = w.PickInt(4096, 4097, 4200, 5000, 8192, 9001)
		}
		s.Msgs = append(s.Msgs, c10Buf{Len: l, Seed: w.Uint64(), Zero: w.Chance(1, 10)})
	}
	for i := w.Range(1, 2); i > 0; i-- {
		s.AADs = append(s.AADs, c10Buf{Len: w.PickInt(0, 0, 1, 13, 16, 17, 32, 100, 129), Seed: w.Uint64()})
	}
	nops := w.Range(1, 14)
	if w.Chance(1, 300) { // a long-lived pool
		nops = w.Range(60, 250)
	}
	var seals []int
	th := r.Split("thread")
	lay := r.Split("layout")
	for i := 0; i < nops; i++ {
		op := c10Op{A: w.Intn(len(s.AEADs)), M: w.Intn(len(s.Msgs)), D: w.Intn(len(s.AADs))}
		tag := s.AEADs[op.A].TagSize
		switch k := w.Weighted(8, 8, 2, 2, 1); {
		case k == 1 && len(seals) > 0:
			op.Kind = "Open"
			op.CT = seals[w.Intn(len(seals))]
			src := s.Ops[op.CT]
			op.A, op.M, op.D = src.A, src.M, src.D
			if w.Chance(1, 6) {
				op.Corrupt = 1 + w.Intn(8*(s.Msgs[op.M].Len+tag))
			} else if len(s.AADs) > 1 && w.Chance(1, 10) {
				op.WrongAAD = true
			}
			op.Dst = genDst(w, s.Msgs[op.M].Len, true)
			op.Repeat = w.Chance(1, 3)
			if op.Corrupt > 0 && w.Chance(1, 2) {
				// a receiver that decrypts in place in its own long-lived buffer and gets a forged
				// record: the buffer stays in the pool and must never change afterwards
				op.OnPool, op.Repeat = true, false
				op.Dst = dstSpec{Mode: "inplace", Spare: 0}
			}
		case k == 2:
			op.Kind = "Sum"
			op.Dst = genDst(w, 32, false)
			op.Repeat = w.Chance(1, 4)
			op.Live, op.Reset = th.Chance(1, 2), th.Chance(1, 6)
		case k == 3:
			op.Kind = "Block"
			op.Dec = w.Chance(1, 2)
			op.Same = w.Chance(1, 2)
			op.NonceSeed = w.Uint64()
		case k == 4:
			op.Kind = "SM2"
			op.SM2Op = []string{"Verify", "ZA", "DerivePublic", "Sign", "CheckOnCurve", "VerifyBad", "ZaEntry"}[w.Intn(7)]
			op.NonceSeed = w.Uint64()
		default:
			op.Kind = "Seal"
			op.NonceSeed = w.Uint64()
			op.Dst = genDst(w, s.Msgs[op.M].Len+tag, true)
			op.Repeat = w.Chance(1, 5)
			op.AadBehind = op.Dst.Mode == "fresh" && lay.Chance(1, 4)
			seals = append(seals, i)
		}
		if op.Kind == "Seal" || op.Kind == "Open" || op.Kind == "Block" {
			op.Cold = th.Chance(1, 10)
		}
		op.Scribble = th.Chance(1, 2)
		s.Ops = append(s.Ops, op)
	}
	return s
}

func (c10) Decode(raw json.RawMessage) (core.Script, error) {
	var s c10Script
	if err := json.Unmarshal(raw, &s); err != nil {
		return nil, err
	}
	if len(s.AEADs) == 0 || len(s.Msgs) == 0 || len(s.AADs) == 0 {
		return nil, fmt.Errorf("C10 script needs at least one aead, msg and aad")
	}
	return &s, nil
}

// pool is the set of live caller buffers with their snapshots.
type pool struct {
	names                []string
	bufs                 map[string][]byte
	snap                 map[string][]byte
	role                 map[string]string
	tag                  map[string]int // for ciphertexts: tag size (to attribute damage to tag vs body)
	uses                 map[string]int
	adopted              []string
	nAdopted, nScribbled int
}

func newPool() *pool {
	return &pool{bufs: map[string][]byte{}, snap: map[string][]byte{}, role: map[string]string{}, tag: map[string]int{}, uses: map[string]int{}}
}

// put registers a caller buffer. The buffer is re-homed into memory with some spare
// capacity behind it (0, 32, 64, 100, 160, 300 or 1100 bytes, chosen from its name: enough for
// an append of several fields or of a whole block of padding to stay inside it) filled with a
// canary: the bytes between len and cap are the caller's memory too (the next field of
// a packet, say) and an operation must not write there either.
func (p *pool) put(name, role string, b []byte) []byte {
	if _, ok := p.bufs[name]; !ok {
		p.names = append(p.names, name)
	}
	extra := []int{0, 32, 64, 100, 0, 160, 300, 1100}[core.Hash64(name)%8]
	nb := slackBuf(len(b), len(b)+extra)
	copy(nb, b)
	full := nb[:cap(nb)]
	for i := len(b); i < len(full); i++ {
		full[i] = byte(0x5A ^ i)
	}
	p.bufs[name] = nb
	p.snap[name] = append([]byte{}, full...)
	p.role[name] = role
	return nb
}

// adopt registers a slice the library returned in memory it allocated itself (dst was
// nil): from the moment of return it is the caller's like any other buffer - nothing the
// library does later may change it, and the caller may write to it (scribble) without
// any later call noticing. Only the len bytes are the result; at most 24 are kept.
func (p *pool) adopt(name string, b []byte, scribble bool) {
	if len(b) == 0 || len(b) > 4096 {
		return
	}
	if scribble {
		for i := range b {
			b[i] = 0xa5 ^ byte(i*29)
		}
	}
	if _, ok := p.bufs[name]; !ok {
		p.names = append(p.names, name)
	}
	p.bufs[name], p.role[name] = b, "result"
	p.nAdopted++
	if scribble {
		p.nScribbled++
	}
	p.snap[name] = append([]byte{}, b...)
	p.adopted = append(p.adopted, name)
	if len(p.adopted) > 24 {
		old := p.adopted[0]
		p.adopted = p.adopted[1:]
		delete(p.bufs, old)
		delete(p.snap, old)
		delete(p.role, old)
		for i, n := range p.names {
			if n == old {
				p.names = append(p.names[:i], p.names[i+1:]...)
				break
			}
		}
	}
}

// damaged returns the first pool buffer that differs from its snapshot.
func (p *pool) damaged(exempt string) (name, role string, at int, ok bool) {
	for _, n := range p.names {
		if n == exempt {
			continue
		}
		b, s := p.bufs[n], p.snap[n]
		full := b[:cap(b)]
		if p.role[n] == "result" {
			full = b // what lies behind a result the library allocated is not the caller's business
		}
		if len(full) != len(s) {
			return n, p.role[n], -1, true
		}
		for i := range full {
			if full[i] != s[i] {
				role = p.role[n]
				if i >= len(b) {
					return n, role + "-spare-capacity", i, true
				}
				if role == "ciphertext" {
					if i >= len(b)-p.tag[n] {
						role = "ciphertext-tag"
					} else {
						role = "ciphertext-body"
					}
				}
				return n, role, i, true
			}
		}
	}
	return "", "", 0, false
}

func (c10) Execute(sc core.Script, keep bool) *core.Result {
	s := sc.(*c10Script)
	res := core.NewResult()
	log := &core.Log{Keep: keep}
	defer func() {
		res.EventHash = log.Hash()
		res.Steps = log.Steps()
		res.LogLines = log.Lines
	}()
	asm := s.Asm && AsmAvailable()
	pathName := "portable"
	if asm {
		pathName = "asm"
	}
	gcmCanon()
	for _, op := range s.Ops {
		if op.Cold {
			res.Faults["thread:cold-call"]++
		}
	}
	pl := newPool()
	var aeads []cipher.AEAD
	var blocks []cipher.Block
	var specs []aeadSpec
	var vio *core.Violation
	report := func(class, op, role, param, detail string) {
		if vio == nil {
			vio = &core.Violation{Class: class, Op: op, Role: role, Param: param, Detail: detail}
			log.Add("VIOLATION %s %s %s %s: %s", class, op, role, param, detail)
		}
	}
	setup := func() {
		for i, sp := range s.AEADs {
			key := pl.put(fmt.Sprintf("key%d", i), "key", cloneSlack(unhx(sp.Key)))
			sp2 := sp
			var prior []aeadSpec
			if i == 0 {
				prior = s.Prior
			}
			a, b, eff, err := mkAEADHistory(sp2, key, asm, prior)
			if err != nil {
				panic(fmt.Sprintf("cannot construct AEAD %+v: %v", sp, err))
			}
			aeads, blocks, specs = append(aeads, a), append(blocks, b), append(specs, eff)
		}
		for i, m := range s.Msgs {
			pl.put(fmt.Sprintf("msg%d", i), "plaintext", cloneSlack(seededBytes(m.Seed, m.Len, m.Zero)))
		}
		for i, m := range s.AADs {
			pl.put(fmt.Sprintf("aad%d", i), "aad", cloneSlack(seededBytes(m.Seed, m.Len, m.Zero)))
		}
	}
	if p, txt, _, _ := core.Catch(setup); p {
		report("panic", "NewCipher/NewGCM", "key", pathName, "construction panicked: "+txt)
	}
	var kinds []string
	var liveHash [2]hash.Hash
	var liveData [2][]byte
	checkPool := func(op, exempt, param string) {
		if n, role, at, bad := pl.damaged(exempt); bad {
			report("input-modified", op, role, param, fmt.Sprintf("%s changed the caller's %s buffer %s at byte %d (len %d, cap %d): %x -> %x", op, role, n, at, len(pl.bufs[n]), cap(pl.bufs[n]), pl.snap[n], pl.bufs[n][:cap(pl.bufs[n])]))
		}
	}
	for i, op := range s.Ops {
		if vio != nil {
			break
		}
		switch op.Kind {
		case "Seal":
			a, sp := aeads[op.A%len(aeads)], specs[op.A%len(aeads)]
			msgName, aadName := fmt.Sprintf("msg%d", op.M%len(s.Msgs)), fmt.Sprintf("aad%d", op.D%len(s.AADs))
			pt, aad := pl.bufs[msgName], pl.bufs[aadName]
			nonce := pl.put(fmt.Sprintf("nonce@%d", i), "nonce", cloneSlack(seededBytes(op.NonceSeed, sp.NonceSize, false)))
			pl.uses[msgName]++
			pl.uses[aadName]++
			needed := len(pt) + sp.TagSize
			dc := op.Dst.class(needed)
			param := dc
			res.Faults[strings.Replace(strings.Replace(dc, "len0", "*", 1), "len>0", "*", 1)]++
			kinds = append(kinds, "Seal:"+dc+":"+core.LenClass(len(pt)))
			if len(pt) == 0 {
				res.Probes["empty-plaintext"]++
			}
			if len(pt)%16 != 0 {
				res.Probes["tail-1..15"]++
			}
			var twin []byte
			if p, txt, _, _ := core.Catch(func() { twin = a.Seal(nil, cloneSlack(nonce), cloneSlack(pt), cloneSlack(aad)) }); p {
				report("panic", "Seal", "dst", "dst=nil(twin)", "Seal(nil, ...) panicked: "+txt)
				break
			}
			do := func(tagName string) []byte {
				var out, prefix, dst, scratch, aadIn []byte
				exempt := ""
				p, txt, _, _ := catchOn(op.Cold, func() {
					if strings.HasPrefix(op.Dst.Mode, "inplace") {
						var d0, in0 []byte
						scratch, d0, in0 = inplaceBuf(op.Dst, pt)
						prefix = append([]byte{}, d0...)
						out = a.Seal(d0, nonce, in0, aad)
					} else if op.AadBehind && op.Dst.Mode == "fresh" {
						// one record: header | room for ciphertext and tag | additional data. Appending to
						// dst (the header) may write the result and nothing else: the bytes right behind
						// it are an input of the same call
						rec := mkDst(dstSpec{Mode: "fresh", Len: op.Dst.Len, Spare: needed + len(aad)})
						dst = rec
						prefix = append([]byte{}, dst...)
						aadIn = rec[:cap(rec)][len(rec)+needed:]
						copy(aadIn, aad)
						res.Faults["aad-behind-result-in-cap(dst)"]++
						out = a.Seal(dst, nonce, pt, aadIn)
					} else {
						dst = mkDst(op.Dst)
						prefix = append([]byte{}, dst...)
						out = a.Seal(dst, nonce, pt, aad)
					}
				})
				if aadIn != nil && !p && !bytes.Equal(aadIn, aad) {
					report("input-modified", "Seal", "aad", param+"/aad-behind-result", fmt.Sprintf("additional data lying right behind the result inside cap(dst) changed: %x -> %x (tag size %d)", aad, aadIn, sp.TagSize))
					return nil
				}
				log.Add("op%d Seal%s %s a=%d pt=%d aad=%d panic=%v out=%s", i, tagName, dc, op.A, len(pt), len(aad), p, core.Hex8(out))
				if p {
					report("panic", "Seal", "dst", param, fmt.Sprintf("Seal with %s (len(dst)=%d cap=%d, needed=%d) panicked: %s", dc, len(dst), cap(dst), needed, txt))
					return nil
				}
				want := append(append([]byte{}, prefix...), twin...)
				if !bytes.Equal(out, want) {
					report("wrong-result", "Seal", "dst", param, fmt.Sprintf("Seal result != dst || Seal(nil,...): got %x want %x", out, want))
					return nil
				}
				if op.Dst.Mode == "fresh" && !bytes.Equal(dst, prefix) {
					report("input-modified", "Seal", "dst-prefix", param, "bytes of dst[:len(dst)] changed")
					return nil
				}
				if strings.HasPrefix(op.Dst.Mode, "inplace") {
					// header in front unchanged (what lies behind the result is spare capacity of dst: not judged)
					if !bytes.Equal(scratch[:len(prefix)], prefix) {
						report("input-modified", "Seal", "dst-prefix", param, "the header bytes in front of the in-place plaintext changed")
						return nil
					}
				}
				if op.Dst.Mode == "fresh" && len(out) > 0 && len(dst) <= cap(dst) && cap(dst)-len(dst) >= needed {
					if &out[0] == &dst[:1][0] {
						res.Probes["reused-spare-capacity"]++
					}
				} else if op.Dst.Mode == "fresh" {
					res.Probes["reallocated"]++
				}
				checkPool("Seal", exempt, param)
				if op.Dst.Mode == "nil" && tagName == "" {
					ret := append([]byte{}, out...)
					pl.adopt(fmt.Sprintf("sealed@%d", i), out, op.Scribble)
					return ret
				}
				return out[len(prefix):]
			}
			ctOut := do("")
			if vio == nil && op.Repeat {
				res.Faults["repeat"]++
				if again := do("(repeat)"); vio == nil && !bytes.Equal(again, ctOut) {
					report("not-repeatable", "Seal", "dst", param, "second Seal on the same buffers differs")
				}
			}
			if vio == nil {
				n := fmt.Sprintf("ct@%d", i)
				pl.put(n, "ciphertext", cloneSlack(ctOut))
				pl.tag[n] = sp.TagSize
			}
		case "Open":
			ctName := fmt.Sprintf("ct@%d", op.CT)
			ct, ok := pl.bufs[ctName]
			if !ok || op.CT >= len(s.Ops) || s.Ops[op.CT].Kind != "Seal" {
				continue
			}
			src := s.Ops[op.CT]
			a, sp := aeads[src.A%len(aeads)], specs[src.A%len(aeads)]
			nonce := pl.bufs[fmt.Sprintf("nonce@%d", op.CT)]
			aadName := fmt.Sprintf("aad%d", src.D%len(s.AADs))
			if op.WrongAAD {
				aadName = fmt.Sprintf("aad%d", (src.D+1)%len(s.AADs))
				res.Faults["open-wrong-aad"]++
			}
			aad := pl.bufs[aadName]
			pl.uses[ctName]++
			if op.Corrupt > 0 && len(ct) > 0 {
				bad := cloneSlack(ct)
				bit := (op.Corrupt - 1) % (8 * len(bad))
				bad[bit/8] ^= 1 << uint(bit%8)
				ctName = fmt.Sprintf("bad@%d", i)
				ct = pl.put(ctName, "ciphertext", bad)
				pl.tag[ctName] = sp.TagSize
				res.Faults["open-corrupted"]++
			}
			needed := len(ct) - sp.TagSize
			if needed < 0 {
				needed = 0
			}
			dc := op.Dst.class(needed)
			param := dc
			res.Faults[strings.Replace(strings.Replace(dc, "len0", "*", 1), "len>0", "*", 1)]++
			kinds = append(kinds, "Open:"+dc+":"+core.LenClass(needed))
			var pt0 []byte
			var err0 error
			if p, txt, _, _ := core.Catch(func() { pt0, err0 = a.Open(nil, cloneSlack(nonce), cloneSlack(ct), cloneSlack(aad)) }); p {
				report("panic", "Open", "dst", "dst=nil(twin)", "Open(nil, ...) panicked: "+txt)
				break
			}
			do := func(tagName string) ([]byte, error) {
				var out, prefix, dst, scratch []byte
				var err error
				exempt := ""
				p, txt, _, _ := catchOn(op.Cold, func() {
					if op.OnPool && op.Corrupt > 0 {
						// in place in the pooled buffer itself (a rejected message leaves it unchanged,
						// which the pool snapshot checks now and after every later operation)
						scratch = ct
						out, err = a.Open(ct[:0], nonce, ct, aad)
						// dst overlaps the input here, and the AEAD contract lets a failing Open
						// overwrite dst up to its capacity: whatever the buffer holds now is its new
						// reference content. From now on nothing may change it (a library that keeps
						// using the caller's buffer after the call returned is caught by later steps).
						pl.snap[ctName] = append([]byte{}, ct[:cap(ct)]...)
					} else if strings.HasPrefix(op.Dst.Mode, "inplace") {
						var d0, in0 []byte
						scratch, d0, in0 = inplaceBuf(op.Dst, ct)
						prefix = append([]byte{}, d0...)
						out, err = a.Open(d0, nonce, in0, aad)
					} else {
						dst = mkDst(op.Dst)
						prefix = append([]byte{}, dst...)
						out, err = a.Open(dst, nonce, ct, aad)
					}
				})
				log.Add("op%d Open%s %s ct=%s len=%d panic=%v err=%v out=%s", i, tagName, dc, ctName, len(ct), p, err != nil, core.Hex8(out))
				if p {
					report("panic", "Open", "dst", param, fmt.Sprintf("Open with %s (len(dst)=%d cap=%d, plaintext=%d) panicked: %s", dc, len(dst), cap(dst), needed, txt))
					return nil, nil
				}
				if (err == nil) != (err0 == nil) {
					report("wrong-result", "Open", "error", param, fmt.Sprintf("Open with %s returned err=%v, Open(nil,...) on private copies returned err=%v", dc, err, err0))
					return nil, nil
				}
				if err == nil {
					want := append(append([]byte{}, prefix...), pt0...)
					if !bytes.Equal(out, want) {
						report("wrong-result", "Open", "dst", param, fmt.Sprintf("Open result != dst || Open(nil,...): got %x want %x", out, want))
						return nil, nil
					}
				}
				if op.Dst.Mode == "fresh" && !bytes.Equal(dst, prefix) {
					report("input-modified", "Open", "dst-prefix", param, "bytes of dst[:len(dst)] changed")
					return nil, nil
				}
				if strings.HasPrefix(op.Dst.Mode, "inplace") {
					// the output region overlaps the ciphertext exactly on its first len(plaintext)
					// bytes; the header in front, the received tag behind the plaintext, and the
					// memory behind the ciphertext are not output
					l := len(prefix)
					if !bytes.Equal(scratch[:l], prefix) {
						report("input-modified", "Open", "dst-prefix", param, "the header bytes in front of the in-place ciphertext changed")
						return nil, nil
					}
					if needed <= len(ct) && !bytes.Equal(scratch[l+needed:l+len(ct)], ct[needed:]) {
						report("input-modified", "Open", "ciphertext-tag", param, fmt.Sprintf("in-place Open changed the tag bytes behind the plaintext: %x -> %x", ct[needed:], scratch[l+needed:l+len(ct)]))
						return nil, nil
					}
					// bytes behind the ciphertext are spare capacity of dst: not judged (DESIGN 5.2)
				}
				checkPool("Open", exempt, param)
				if op.Dst.Mode == "nil" && tagName == "" && err == nil {
					ret := append([]byte{}, out...)
					pl.adopt(fmt.Sprintf("opened@%d", i), out, op.Scribble)
					return ret, err
				}
				return out, err
			}
			o1, e1 := do("")
			if vio == nil && op.Repeat {
				res.Faults["repeat"]++
				res.Probes["open-twice"]++
				o2, e2 := do("(repeat)")
				if vio == nil && ((e1 == nil) != (e2 == nil) || !bytes.Equal(o1, o2)) {
					report("not-repeatable", "Open", "ciphertext", param, fmt.Sprintf("second Open of the same buffers: err %v then %v", e1, e2))
				}
			}
		case "Sum":
			msgName := fmt.Sprintf("msg%d", op.M%len(s.Msgs))
			msg := pl.bufs[msgName]
			pl.uses[msgName]++
			dc := op.Dst.class(32)
			res.Faults[strings.Replace(strings.Replace(dc, "len0", "*", 1), "len>0", "*", 1)]++
			kinds = append(kinds, "Sum:"+dc)
			p, txt, _, _ := core.Catch(func() {
				h := sm3.New()
				var twin []byte
				if op.Live {
					// one of two hash values that live as long as the scenario: results handed out
					// earlier (and adopted into the pool) must survive everything done to it later
					k := op.A % 2
					if liveHash[k] == nil {
						liveHash[k] = sm3.New()
					}
					h = liveHash[k]
					if op.Reset {
						h.Reset()
						liveData[k] = nil
					}
					h.Write(msg)
					liveData[k] = append(liveData[k], msg...)
					t := sm3.New()
					t.Write(liveData[k])
					twin = t.Sum(nil)
					res.Faults["sum-on-long-lived-hash"]++
				} else {
					h.Write(msg)
					twin = h.Sum(nil)
				}
				dst := mkDst(op.Dst)
				prefix := append([]byte{}, dst...)
				out := h.Sum(dst)
				log.Add("op%d Sum %s msg=%d out=%s", i, dc, len(msg), core.Hex8(out))
				if !bytes.Equal(out, append(append([]byte{}, prefix...), twin...)) {
					report("wrong-result", "Sum", "dst", dc, fmt.Sprintf("Sum(b) != b || Sum(nil): %x", out))
				} else if op.Dst.Mode == "fresh" && !bytes.Equal(dst, prefix) {
					report("input-modified", "Sum", "dst-prefix", dc, "bytes of b changed")
				}
				if vio == nil && op.Dst.Mode == "nil" {
					pl.adopt(fmt.Sprintf("digest@%d", i), out, op.Scribble)
				}
				if op.Repeat {
					res.Faults["repeat"]++
					if again := h.Sum(nil); !bytes.Equal(again, twin) {
						report("not-repeatable", "Sum", "hash-state", dc, "Sum changed the hash state")
					}
				}
			})
			if p {
				report("panic", "Sum", "dst", dc, "Sum panicked: "+txt)
			}
			checkPool("Sum", "", dc)
		case "Block":
			blk := blocks[op.A%len(blocks)]
			name := fmt.Sprintf("blk@%d", i)
			src := pl.put(name, "block", cloneSlack(seededBytes(op.NonceSeed, 16, false)))
			opn := "Encrypt"
			f := blk.Encrypt
			if op.Dec {
				opn, f = "Decrypt", blk.Decrypt
			}
			param := "dst!=src"
			if op.Same {
				param = "dst==src"
				res.Faults["block-inplace"]++
			}
			kinds = append(kinds, opn+":"+param)
			p, txt, _, _ := catchOn(op.Cold, func() {
				twin := slackBuf(16, 16)
				f(twin, cloneSlack(src))
				if op.Same {
					scratch := cloneSlack(src)
					f(scratch, scratch)
					if !bytes.Equal(scratch, twin) {
						report("wrong-result", opn, "dst", param, fmt.Sprintf("%s in place gives %x, out of place %x", opn, scratch, twin))
					}
				} else {
					dst := slackBuf(16, 16)
					f(dst, src)
					if !bytes.Equal(dst, twin) {
						report("wrong-result", opn, "dst", param, "result differs from twin")
					}
				}
				log.Add("op%d %s %s out=%s", i, opn, param, core.Hex8(twin))
			})
			if p {
				report("panic", opn, "dst", param, opn+" panicked: "+txt)
			}
			checkPool(opn, "", param)
		case "SM2":
			c10SM2(op, i, pl, log, report)
			kinds = append(kinds, "SM2:"+op.SM2Op)
			checkPool("SM2."+op.SM2Op, "", "inputs")
		}
	}
	res.Violation = vio
	shared := 0
	for _, n := range pl.names {
		if pl.uses[n] >= 2 {
			shared++
		}
	}
	if shared > 0 {
		res.Probes["pool-buffer-shared>=2"]++
	}
	sort.Strings(kinds)
	res.Faults["result-adopted"] += pl.nAdopted
	res.Faults["result-overwritten-by-owner"] += pl.nScribbled
	res.Fingerprint = core.Fp(pathName, strings.Join(kinds, ","))
	for k := range res.Faults {
		if k != "dst=nil" {
			res.Nontrivial = true
		}
	}
	return res
}

// c10SM2 runs one SM2 operation on pooled key material twice and demands the same
// answer; the caller then checks that no input buffer changed.
func c10SM2(op c10Op, i int, pl *pool, log *core.Log, report func(class, op, role, param, detail string)) {
	r := core.NewRand(op.NonceSeed)
	priv := ref.Pad32(randScalar(r))
	pub := ref.MulG(ref.Int(priv))
	e := r.Bytes(32)
	_, rr, ss := ref.SignStep(ref.Int(priv), ref.Int(e), randScalar(r))
	for rr == nil {
		_, rr, ss = ref.SignStep(ref.Int(priv), ref.Int(e), randScalar(r))
	}
	put := func(n, role string, b []byte) []byte { return pl.put(fmt.Sprintf("%s@%d", n, i), role, cloneSlack(b)) }
	pPriv := put("priv", "private-key", priv)
	px, py := put("pubx", "public-key", ref.Pad32(pub.X)), put("puby", "public-key", ref.Pad32(pub.Y))
	pe, pr, ps := put("e", "digest", e), put("r", "signature", ref.Pad32(rr)), put("s", "signature", ref.Pad32(ss))
	id, msg := put("id", "id", r.Bytes(r.PickInt(0, 16, 33))), put("m", "message", r.Bytes(r.Len(120)))
	name := "SM2." + op.SM2Op
	// own: a result belongs to the caller from the moment it is returned. It is adopted into
	// the pool (nothing may change it later) and, in half of the operations, overwritten
	// by its owner; the copy taken before is what later results are compared with.
	own := func(what string, b []byte) []byte {
		keep := append([]byte{}, b...)
		pl.adopt(fmt.Sprintf("%s-result@%d", what, i), b, op.Scribble)
		return keep
	}
	p, txt, _, _ := core.Catch(func() {
		switch op.SM2Op {
		case "Verify":
			ok1, _ := sm2.VerifyHashed(px, py, pe, pr, ps)
			ok2, _ := sm2.VerifyHashed(px, py, pe, pr, ps)
			log.Add("op%d VerifyHashed %v %v", i, ok1, ok2)
			if ok1 != ok2 {
				report("not-repeatable", name, "signature", "inputs", "second VerifyHashed on the same buffers differs")
			}
			za1, _ := sm2.ZA(id, px, py)
			v1, _ := sm2.VerifyZa(px, py, za1, msg, pr, ps)
			v2, _ := sm2.Verify(id, px, py, msg, pr, ps)
			if v1 != v2 {
				report("not-repeatable", name, "signature", "inputs", "Verify and VerifyZa disagree on the same buffers")
			}
		case "ZA":
			z1, e1 := sm2.ZA(id, px, py)
			z1 = own("za", z1)
			z2, e2 := sm2.ZA(id, px, py)
			log.Add("op%d ZA %s", i, core.Hex8(z1))
			if !bytes.Equal(z1, z2) || (e1 == nil) != (e2 == nil) {
				report("not-repeatable", name, "id", "inputs", "second ZA differs (the caller had overwritten the first result, which it owns)")
			}
		case "DerivePublic":
			x1, y1, _ := sm2.DerivePublic(pPriv)
			x1, y1 = own("x", x1), own("y", y1)
			x2, y2, _ := sm2.DerivePublic(pPriv)
			log.Add("op%d DerivePublic %s", i, core.Hex8(x1))
			if !bytes.Equal(x1, x2) || !bytes.Equal(y1, y2) {
				report("not-repeatable", name, "private-key", "inputs", "second DerivePublic differs")
			}
		case "ZaEntry": // the za-level entry points, with za, msg, r, s as separate pooled buffers
			za := put("za", "za", r.Bytes(32))
			ok1, _ := sm2.VerifyZa(px, py, za, msg, pr, ps)
			ok2, _ := sm2.VerifyZa(px, py, za, msg, pr, ps)
			c := rng.Content{TailSeed: op.NonceSeed}
			r1, s1, _ := sm2.SignZa(rng.New(c, nil, nil), pPriv, za, msg)
			r1, s1 = own("r", r1), own("s", s1)
			r2, s2, _ := sm2.SignZa(rng.New(c, nil, nil), pPriv, za, msg)
			log.Add("op%d VerifyZa %v %v SignZa %s", i, ok1, ok2, core.Hex8(r1))
			if ok1 != ok2 || !bytes.Equal(r1, r2) || !bytes.Equal(s1, s2) {
				report("not-repeatable", name, "za", "inputs", "second SignZa/VerifyZa on the same buffers differs")
			}
		case "CheckOnCurve", "VerifyBad":
			// key material as it arrives from a faulty wire: coordinates >= p, off-curve
			// points, r or s >= n. The answer is "no" - and the caller's buffers must still
			// be what they were.
			bx, by, br := px, py, pr
			switch r.Intn(5) {
			case 0:
				bx = put("badx", "public-key", ref.Pad32(ref.SM2P))
			case 1:
				sx, sy := smallXPoint(r)
				bx, by = put("badx", "public-key", ref.Pad32(new(big.Int).Add(sx, ref.SM2P))), put("bady", "public-key", ref.Pad32(sy))
			case 2:
				by = put("bady", "public-key", bytes.Repeat([]byte{0xff}, 32))
			case 3:
				bx = put("badx", "public-key", r.Bytes(32))
			default:
				br = put("badr", "signature", ref.Pad32(ref.SM2N))
			}
			if op.SM2Op == "CheckOnCurve" {
				a1 := sm2.CheckOnCurve(bx, by)
				a2 := sm2.CheckOnCurve(bx, by)
				g1 := sm2.CheckOnCurve(px, py)
				log.Add("op%d CheckOnCurve %v %v good=%v", i, a1, a2, g1)
				if a1 != a2 {
					report("not-repeatable", name, "public-key", "inputs", "second CheckOnCurve on the same buffers differs")
				}
			} else {
				ok1, _ := sm2.VerifyHashed(bx, by, pe, br, ps)
				ok2, _ := sm2.VerifyHashed(bx, by, pe, br, ps)
				log.Add("op%d VerifyHashed(bad) %v %v", i, ok1, ok2)
				if ok1 != ok2 {
					report("not-repeatable", name, "signature", "inputs", "second VerifyHashed on the same buffers differs")
				}
			}
		case "Sign":
			c := rng.Content{TailSeed: op.NonceSeed}
			r1, s1, _ := sm2.Sign(id, px, py, rng.New(c, nil, nil), pPriv, msg)
			r1, s1 = own("r", r1), own("s", s1)
			r2, s2, _ := sm2.Sign(id, px, py, rng.New(c, nil, nil), pPriv, msg)
			log.Add("op%d Sign %s", i, core.Hex8(r1))
			if !bytes.Equal(r1, r2) || !bytes.Equal(s1, s2) {
				report("not-repeatable", name, "message", "inputs", "second Sign with the same stream differs")
			}
		}
	})
	if p {
		report("panic", name, "inputs", "inputs", name+" panicked: "+txt)
	}
}

func (c10) Shrinks(sc core.Script) []core.Script {
	s := sc.(*c10Script)
	cp := func() *c10Script {
		raw, _ := json.Marshal(s)
		var c c10Script
		json.Unmarshal(raw, &c)
		return &c
	}
	var out []core.Script
	// drop ops (keeping CT references consistent)
	for i := len(s.Ops) - 1; i >= 0; i-- {
		c := cp()
		c.Ops = append(c.Ops[:i], c.Ops[i+1:]...)
		okRefs := true
		for j := range c.Ops {
			if c.Ops[j].Kind == "Open" {
				switch {
				case c.Ops[j].CT == i:
					okRefs = false
				case c.Ops[j].CT > i:
					c.Ops[j].CT--
				}
			}
		}
		if okRefs {
			out = append(out, c)
		}
	}
	for i, op := range s.Ops {
		if op.Repeat {
			c := cp()
			c.Ops[i].Repeat = false
			out = append(out, c)
		}
		if op.Dst.Mode == "fresh" && op.Dst.Len > 0 {
			c := cp()
			c.Ops[i].Dst.Len = 0
			out = append(out, c)
		}
		if op.Corrupt > 0 {
			c := cp()
			c.Ops[i].Corrupt = 0
			out = append(out, c)
		}
	}
	if len(s.AEADs) > 1 {
		c := cp()
		c.AEADs = c.AEADs[:1]
		out = append(out, c)
	}
	for i, a := range s.AEADs {
		if a.NonceSize != 12 || a.TagSize != 16 {
			c := cp()
			c.AEADs[i].NonceSize, c.AEADs[i].TagSize = 12, 16
			out = append(out, c)
		}
	}
	for i, m := range s.Msgs {
		for _, l := range []int{0, 1, 16, 17, m.Len / 2} {
			if l < m.Len {
				c := cp()
				c.Msgs[i].Len = l
				out = append(out, c)
			}
		}
		if !m.Zero {
			c := cp()
			c.Msgs[i].Zero = true
			out = append(out, c)
		}
	}
	for i, m := range s.AADs {
		if m.Len > 0 {
			c := cp()
			c.AADs[i].Len = 0
			out = append(out, c)
		}
	}
	if s.Asm {
		c := cp()
		c.Asm = false
		out = append(out, c)
	}
	return out
}

package props

import (
	"bytes"
	"crypto/cipher"
	"encoding/json"
	"fmt"
	"sort"
	"strconv"
	"strings"
	"time"

	"github.com/bilibili/smgo/sm2"
	"github.com/bilibili/smgo/sm3"
	"github.com/bilibili/smgo/sm4"

	"verif/sim/core"
	"verif/sim/dev/rng"
	"verif/sim/ref"
	"verif/sim/sched"
)

// C17 — shared cipher, AEAD and key material are safe for concurrent use.
//
// System: 2-6 client tasks sharing a few objects (Blocks, AEADs, SM2 keys) and a few
// read-only buffers (key slices, nonces, aad, plaintexts, pre-sealed ciphertexts,
// signatures). The scheduler decides every interleaving: at API-call boundaries (L1,
// this file in the plain build) and at Go-statement granularity when the library has
// been instrumented with yield points and built with -race (L2, same workload; see
// cmd/yieldinst). Oracle: every call returns what the same call returned in the serial
// pre-pass on private copies and twin objects; shared inputs equal their snapshots at
// every step; every task finishes.

type c17Op struct {
	Kind string  `json:"k"`
	A    int     `json:"a,omitempty"` // aead / block index
	M    int     `json:"m,omitempty"` // message index
	D    int     `json:"d,omitempty"` // aad index
	C    int     `json:"c,omitempty"` // pre-sealed ciphertext index
	K    int     `json:"key,omitempty"`
	Seed uint64  `json:"seed,omitempty"`
	Dst  dstSpec `json:"dst"`
}

type c17Script struct {
	Asm        bool           `json:"asm"`
	AEADs      []aeadSpec     `json:"aeads"`
	Msgs       []c10Buf       `json:"msgs"`
	AADs       []c10Buf       `json:"aads"`
	NKeys      int            `json:"nkeys"`
	KeySeed    uint64         `json:"key_seed"`
	NSealed    int            `json:"nsealed"`
	Tasks      [][]c17Op      `json:"tasks"`
	First      int            `json:"first"`
	SchedSeed  uint64         `json:"sched_seed"`
	Weights    []int          `json:"weights,omitempty"`     // per task: how often the seeded scheduler picks it, relative to the others (default 1)
	StartBurst int            `json:"start_burst,omitempty"` // opening phase: every task in turn runs for this many yield points, so all are in mid-call before ordinary scheduling starts
	OwnThreads bool           `json:"own_threads,omitempty"` // every task runs on an OS thread created for it (seam S7)
	Den        int            `json:"den"`
	Explicit   bool           `json:"explicit,omitempty"`
	Switches   []sched.Switch `json:"switches,omitempty"`
	Ends       []int          `json:"ends,omitempty"`
}

type c17 struct{}

func init()            { core.Register(c17{}) }
func (c17) ID() string { return "C17" }

var c17Kinds = []string{"Seal", "Open", "Encrypt", "Decrypt", "NewCipher", "NewGCM", "SignHashed", "VerifyHashed", "Verify", "DerivePublic", "GenerateKey", "SM3", "CheckOnCurve", "SM3Fork", "SignFail"}

func (c17) Plan(tier string) core.Plan {
	if L2Enabled {
		if tier == "thorough" {
			return core.Plan{Seeded: 24000}
		}
		return core.Plan{Seeded: 1600}
	}
	if tier == "thorough" {
		return core.Plan{Seeded: 160000}
	}
	return core.Plan{Seeded: 24000}
}

func (c17) Meta() core.Meta {
	gran := "L1: context switches at API-call boundaries (operations atomic)"
	if L2Enabled {
		gran = "L2: context switches at Go-statement granularity inside the library (yield points inserted by cmd/yieldinst into a scratch copy), built with -race; the race detector is the invariant monitor"
	}
	return core.Meta{
		Level: "exploration",
		Rule: gran + ". seeded runs: 2-6 tasks x <=6 operations each (" + strings.Join(c17Kinds, ", ") + ") on 1-2 shared AEADs/Blocks, 1-2 shared SM2 key pairs and shared read-only buffers (same key slice to concurrent NewCipher, same nonce/aad/plaintext to concurrent Seals, same ciphertext buffer to concurrent Opens, same public key and signature to concurrent Verifies); independent hash values per task; both implementation paths; in one run in four every task is an OS thread of its own; under L2 one run in 60 is a crowd: 66-110 tasks with one or two SM2 calls each on 54-110 distinct key pairs, switching every 16-256 yield points, so that dozens of calls over dozens of keys are in flight at once; in half of the crowds two to four tasks make 6-12 calls each and are favoured 20-80 fold by the scheduler, after an opening phase in which every task in turn is run a few dozen yield points into its first call: calls keep starting and finishing while all the others sit in the middle of theirs. " +
			"non-trivial = at least one context switch happened while another task still had work; distinct = distinct (path, per-task op-kind sequences, switch-count bucket); distinct_interleavings = distinct recorded schedules (switch positions and targets)",
		Components: map[string]string{"sm4 Block/AEAD (amd64 assembly and portable)": "real", "sm2 Sign/Verify/DerivePublic/GenerateKey": "real", "sm3": "real", "crypto/cipher glue": "real",
			"caller threads": "stub (cooperative tasks under the seeded scheduler; one runs at a time)", "randomness sources": "stub (per-call simulated devices)", "arm64 assembly": "not run",
			"oracle": "serial pre-pass of the same calls on private copies and twin objects; snapshots of shared buffers; under L2 additionally ThreadSanitizer reports"},
		Assumptions: []string{"tasks are scheduled one at a time (sequentially consistent interleavings only; no weak-memory effects)", "L1/L2 cannot split the assembly routines (that is L3's job)",
			"shared objects are constructed before the tasks start"},
		FaultKinds: []string{"context-switch", "shared-ciphertext-opened-concurrently", "shared-key-slice", "shared-aead", "shared-sm2-key", "crowd", "thread-per-task"},
		ProbeNames: []string{"switches>=1", "switches>=8", "tasks>=4", "same-ct-opened-by>=2-tasks", "same-aead-used-by>=2-tasks", "same-sm2key-used-by>=2-tasks"},
		StepUnit:   "scheduler yield points visited",
	}
}

func (c17) Generate(idx int, r *core.Rand, tier string) core.Script {
	w := r.Split("workload")
	sc := r.Split("sched")
	s := &c17Script{Asm: w.Chance(3, 4), NKeys: w.Range(1, 2), KeySeed: w.Uint64(), SchedSeed: sc.Uint64()}
	for i := w.Range(1, 2); i > 0; i-- {
		s.AEADs = append(s.AEADs, genAEADSpec(w))
	}
	for i := w.Range(1, 2); i > 0; i-- {
		l := c10GenLen(w)
		if w.Chance(1, 12) { // beyond a kilobyte: bulk paths
			l = w.PickInt(4096, 4097, 5000, 8192, 9000)
		}
		s.Msgs = append(s.Msgs, c10Buf{Len: l, Seed: w.Uint64()})
	}
	for i := w.Range(1, 2); i > 0; i-- {
		s.AADs = append(s.AADs, c10Buf{Len: w.PickInt(0, 1, 13, 16, 33, 100), Seed: w.Uint64()})
	}
	s.NSealed = w.Range(1, 3)
	nt := w.Range(2, 4)
	if w.Chance(1, 5) {
		nt = w.Range(4, 6)
	}
	// swarm: op mix for this run
	weights := make([]int, len(c17Kinds))
	for i := range weights {
		if w.Chance(1, 2) {
			weights[i] = w.Range(1, 4)
		}
	}
	weights[w.Intn(2)] += 3 // always some Seal/Open
	if L2Enabled {          // SM2 calls carry thousands of yield points each: fewer of them per run
		for _, i := range []int{6, 7, 8, 9, 10} {
			weights[i] = (weights[i] + 1) / 2
		}
	}
	// focused runs: every task performs the same kind of operation on the same shared
	// objects, so that two executions of one routine interleave at statement level (the
	// shape that exposes a temporary shared between calls by a wrong result, independently
	// of what the race detector can see)
	focus := -1
	if w.Chance(1, 3) {
		focus = w.Weighted(weights...)
	}
	long := !L2Enabled && w.Chance(1, 100) // long-lived tasks
	// crowd runs (statement-level interleaving only): 66-110 tasks with one or two SM2 calls
	// each, nearly every task on a key of its own, so that dozens of calls are in flight at
	// once over dozens of distinct keys - the shape that exhausts a fixed pool of scratch
	// slots or the capacity of a per-key cache in the middle of somebody's call
	crowd := L2Enabled && w.Chance(1, 60)
	if crowd {
		nt = w.Range(66, 110)
		s.NKeys = w.Range(nt-12, nt)
		focus, long = -1, false
	}
	crowdKinds := []string{"SignHashed", "SignHashed", "SignHashed", "VerifyHashed", "VerifyHashed", "VerifyHashed", "Verify", "Verify", "DerivePublic", "GenerateKey", "SignFail"}
	if crowd && w.Chance(2, 3) { // single-kind crowd
		crowdKinds = []string{crowdKinds[w.Intn(len(crowdKinds)-3)]}
	}
	churn := 0
	if crowd && w.Chance(2, 3) {
		churn = w.Range(2, 4)
		s.StartBurst = w.PickInt(400, 1500, 5000, w.Range(300, 6000))
		s.Weights = make([]int, nt)
		for t := range s.Weights {
			s.Weights[t] = 1
			if t >= nt-churn {
				s.Weights[t] = w.PickInt(20, 40, 80)
			}
		}
	}
	for t := 0; t < nt; t++ {
		var ops []c17Op
		if crowd {
			nops := w.PickInt(1, 1, 1, 2)
			if churn > 0 && t >= nt-churn {
				// a churner: many calls in quick succession (the scheduler favours it) while the
				// holders sit in the middle of their single call
				nops = w.Range(6, 12)
			}
			for i := nops; i > 0; i-- {
				op := c17Op{Kind: crowdKinds[w.Intn(len(crowdKinds))], K: t % s.NKeys, Seed: w.Uint64(), Dst: dstSpec{Mode: "nil"}}
				if w.Chance(1, 10) {
					op.K = w.Intn(s.NKeys)
				}
				ops = append(ops, op)
			}
			s.Tasks = append(s.Tasks, ops)
			continue
		}
		n := w.Range(1, 6)
		if L2Enabled {
			n = w.Range(1, 3)
		}
		if focus >= 0 {
			n = w.Range(1, 2)
		}
		if long {
			n = w.Range(10, 25)
		}
		for i := 0; i < n; i++ {
			ki := w.Weighted(weights...)
			if focus >= 0 {
				ki = focus
			}
			op := c17Op{Kind: c17Kinds[ki], A: w.Intn(len(s.AEADs)), M: w.Intn(len(s.Msgs)), D: w.Intn(len(s.AADs)), C: w.Intn(s.NSealed), K: w.Intn(s.NKeys), Seed: w.Uint64()}
			if op.Kind == "SM3Fork" {
				if t < 2 {
					op.A = t
				} else {
					op.Kind = "SM3"
				}
			}
			switch op.Kind {
			case "Seal":
				op.Dst = genDst(w, s.Msgs[op.M].Len+s.AEADs[op.A].TagSize, false)
			case "Open":
				op.Dst = genDst(w, s.Msgs[op.C%len(s.Msgs)].Len, false)
			default:
				op.Dst = dstSpec{Mode: "nil"}
			}
			ops = append(ops, op)
		}
		s.Tasks = append(s.Tasks, ops)
	}
	s.First = sc.Intn(nt)
	s.OwnThreads = !crowd && r.Split("thread").Chance(1, 4)
	if L2Enabled {
		s.Den = sc.PickInt(16, 64, 64, 256, 256, 1024, 2048)
		if focus >= 0 {
			s.Den = sc.PickInt(8, 16, 32, 64, 128)
		}
		if crowd {
			s.Den = sc.PickInt(16, 32, 64, 128, 256)
		}
	} else {
		s.Den = sc.PickInt(1, 1, 2, 2, 3, 4)
	}
	return s
}

func (c17) Decode(raw json.RawMessage) (core.Script, error) {
	var s c17Script
	if err := json.Unmarshal(raw, &s); err != nil {
		return nil, err
	}
	if len(s.AEADs) == 0 || len(s.Msgs) == 0 || len(s.AADs) == 0 || s.NKeys < 1 || s.NSealed < 1 {
		return nil, fmt.Errorf("C17 script incomplete")
	}
	return &s, nil
}

// c17World is everything the tasks share (or, for the serial pre-pass, a private twin).
type c17World struct {
	aeads  []cipher.AEAD
	blocks []cipher.Block
	specs  []aeadSpec
	keys   [][]byte // 16-byte key slices (shared with concurrent NewCipher)
	msgs   [][]byte
	aads   [][]byte
	nonces [][]byte // per sealed ciphertext / per aead
	cts    [][]byte
	ctA    []int
	ctM    []int
	ctD    []int
	blk16  [][]byte
	priv   [][]byte
	px, py [][]byte
	es     [][]byte
	rs, ss [][]byte
	ids    [][]byte
	// forks: a hash value and a by-value copy of it taken in mid-stream (after more than one
	// block), each continued by one task only: independent hash values that share a history
	forks [2]*sm3.SM3
}

func (w *c17World) buffers() (names []string, bufs [][]byte, roles []string) {
	add := func(role string, l [][]byte) {
		for i, b := range l {
			names = append(names, fmt.Sprintf("%s%d", role, i))
			bufs = append(bufs, b)
			roles = append(roles, role)
		}
	}
	add("key", w.keys)
	add("plaintext", w.msgs)
	add("aad", w.aads)
	add("nonce", w.nonces)
	add("ciphertext", w.cts)
	add("block", w.blk16)
	add("private-key", w.priv)
	add("public-key-x", w.px)
	add("public-key-y", w.py)
	add("digest", w.es)
	add("signature-r", w.rs)
	add("signature-s", w.ss)
	add("id", w.ids)
	return
}

func c17Build(s *c17Script, asm bool) *c17World {
	w := &c17World{}
	for _, sp := range s.AEADs {
		key := cloneSlack(unhx(sp.Key))
		a, b, eff, err := mkAEADKey(sp, key, asm)
		if err != nil {
			panic(fmt.Sprintf("cannot construct AEAD: %v", err))
		}
		w.aeads, w.blocks, w.specs, w.keys = append(w.aeads, a), append(w.blocks, b), append(w.specs, eff), append(w.keys, key)
	}
	for _, m := range s.Msgs {
		w.msgs = append(w.msgs, cloneSlack(seededBytes(m.Seed, m.Len, m.Zero)))
	}
	for _, m := range s.AADs {
		w.aads = append(w.aads, cloneSlack(seededBytes(m.Seed, m.Len, m.Zero)))
	}
	for i := 0; i < s.NSealed; i++ {
		ai, mi, di := i%len(w.aeads), i%len(w.msgs), i%len(w.aads)
		nonce := cloneSlack(seededBytes(s.KeySeed^uint64(0x100+i), w.specs[ai].NonceSize, false))
		// sealed by a throwaway object: the shared AEADs must reach the tasks unused, so that
		// anything they initialise lazily is initialised under concurrency
		tmp, _, _, err := mkAEADKey(s.AEADs[ai], unhx(s.AEADs[ai].Key), asm)
		if err != nil {
			panic(err)
		}
		ct := tmp.Seal(nil, nonce, w.msgs[mi], w.aads[di])
		w.nonces, w.cts = append(w.nonces, nonce), append(w.cts, cloneSlack(ct))
		w.ctA, w.ctM, w.ctD = append(w.ctA, ai), append(w.ctM, mi), append(w.ctD, di)
	}
	for i := 0; i < 2; i++ {
		w.blk16 = append(w.blk16, cloneSlack(seededBytes(s.KeySeed^uint64(0x200+i), 16, false)))
	}
	if h0, ok := sm3.New().(*sm3.SM3); ok {
		h0.Write(seededBytes(s.KeySeed^0x300, 100, false))
		c := *h0
		w.forks[0], w.forks[1] = h0, &c
	}
	kr := core.NewRand(s.KeySeed)
	for i := 0; i < s.NKeys; i++ {
		d := randScalar(kr)
		pub := ref.MulG(d)
		e := kr.Bytes(32)
		_, r, sg := ref.SignStep(d, ref.Int(e), randScalar(kr))
		for r == nil {
			_, r, sg = ref.SignStep(d, ref.Int(e), randScalar(kr))
		}
		w.priv, w.px, w.py = append(w.priv, cloneSlack(ref.Pad32(d))), append(w.px, cloneSlack(ref.Pad32(pub.X))), append(w.py, cloneSlack(ref.Pad32(pub.Y)))
		w.es, w.rs, w.ss = append(w.es, cloneSlack(e)), append(w.rs, cloneSlack(ref.Pad32(r))), append(w.ss, cloneSlack(ref.Pad32(sg)))
		w.ids = append(w.ids, cloneSlack(kr.Bytes(16)))
	}
	return w
}

// c17Run executes one operation against a world and returns a digest of everything
// the caller can observe from it.
func c17Run(op c17Op, w *c17World, yield func(site int)) (out string) {
	defer func() {
		if r := recover(); r != nil {
			out = "panic: " + panicText(r)
		}
	}()
	ai := op.A % len(w.aeads)
	switch op.Kind {
	case "Seal":
		ci := op.C % len(w.cts) // reuse that ciphertext's nonce buffer: same nonce slice shared by concurrent Seals
		ai = w.ctA[ci]
		dst := mkDst(op.Dst)
		o := w.aeads[ai].Seal(dst, w.nonces[ci], w.msgs[op.M%len(w.msgs)], w.aads[op.D%len(w.aads)])
		return "seal:" + core.Hex8(o) + strconv.Itoa(len(o))
	case "Open":
		ci := op.C % len(w.cts)
		dst := mkDst(op.Dst)
		di := w.ctD[ci]
		if op.Seed%7 == 0 { // wrong aad: must fail the same way
			di = (di + 1) % len(w.aads)
		}
		o, err := w.aeads[w.ctA[ci]].Open(dst, w.nonces[ci], w.cts[ci], w.aads[di])
		return "open:" + core.Hex8(o) + strconv.Itoa(len(o)) + tf(err != nil)
	case "Encrypt", "Decrypt":
		dst := slackBuf(16, 16)
		if op.Kind == "Encrypt" {
			w.blocks[ai].Encrypt(dst, w.blk16[op.M%len(w.blk16)])
		} else {
			w.blocks[ai].Decrypt(dst, w.blk16[op.M%len(w.blk16)])
		}
		return "blk:" + core.Hex8(dst)
	case "NewCipher": // same key slice passed to concurrent NewCipher; path switch is read-only here
		b, err := sm4.NewCipher(w.keys[ai])
		if err != nil {
			return "newcipher-err"
		}
		yield(1500)
		dst := slackBuf(16, 16)
		b.Encrypt(dst, w.blk16[0])
		return "newcipher:" + core.Hex8(dst)
	case "NewGCM":
		a, err := cipher.NewGCM(w.blocks[ai])
		if err != nil {
			return "newgcm-err"
		}
		yield(1501)
		o := a.Seal(nil, seededBytes(op.Seed, 12, false), w.msgs[op.M%len(w.msgs)], nil)
		return "newgcm:" + core.Hex8(o)
	case "SignHashed":
		k := op.K % len(w.priv)
		r, s, err := sm2.SignHashed(rng.New(rng.Content{TailSeed: op.Seed}, nil, nil), w.priv[k], w.es[k])
		return "sign:" + core.Hex8(append(append([]byte{}, r...), s...)) + tf(err != nil)
	case "SignFail": // a signing call whose randomness source fails in mid-draw (history for later calls)
		k := op.K % len(w.priv)
		prog := []rng.Step{{Kind: "err", N: int(op.Seed % 32), Err: "EOF"}}
		r, s, err := sm2.SignHashed(rng.New(rng.Content{TailSeed: op.Seed}, prog, nil), w.priv[k], w.es[k])
		return "signfail:" + core.Hex8(append(append([]byte{}, r...), s...)) + tf(err != nil)
	case "VerifyHashed":
		k := op.K % len(w.priv)
		ok, err := sm2.VerifyHashed(w.px[k], w.py[k], w.es[k], w.rs[k], w.ss[k])
		return "verify:" + tf(ok) + tf(err != nil)
	case "Verify":
		k := op.K % len(w.priv)
		ok, err := sm2.Verify(w.ids[k], w.px[k], w.py[k], w.msgs[op.M%len(w.msgs)], w.rs[k], w.ss[k])
		return "verifyid:" + tf(ok) + tf(err != nil)
	case "CheckOnCurve":
		k := op.K % len(w.priv)
		return "oncurve:" + tf(sm2.CheckOnCurve(w.px[k], w.py[k])) + tf(sm2.CheckOnCurve(w.py[k], w.px[k]))
	case "DerivePublic":
		k := op.K % len(w.priv)
		x, y, err := sm2.DerivePublic(w.priv[k])
		return "derive:" + core.Hex8(append(append([]byte{}, x...), y...)) + tf(err != nil)
	case "GenerateKey":
		d, x, y, err := sm2.GenerateKey(rng.New(rng.Content{TailSeed: op.Seed}, nil, nil))
		return "genkey:" + core.Hex8(append(append(append([]byte{}, d...), x...), y...)) + tf(err != nil)
	case "SM3Fork":
		// op.A selects the fork; the generator gives fork i to task i only
		h := w.forks[op.A&1]
		if h == nil {
			return "fork-unavailable"
		}
		m := w.msgs[op.M%len(w.msgs)]
		h.Write(m)
		yield(1503)
		return "fork:" + core.Hex8(h.Sum(nil))
	case "SM3":
		h := sm3.New()
		m := w.msgs[op.M%len(w.msgs)]
		cut := int(op.Seed % uint64(len(m)+1))
		h.Write(m[:cut])
		yield(1502)
		h.Write(m[cut:])
		return "sm3:" + core.Hex8(h.Sum(nil))
	}
	return "unknown-op"
}

type c17Event struct {
	at   uint64
	text string
}

func (c17) Execute(sc core.Script, keep bool) *core.Result {
	s := sc.(*c17Script)
	res := core.NewResult()
	log := &core.Log{Keep: keep}
	defer func() {
		res.EventHash = log.Hash()
		res.LogLines = log.Lines
	}()
	asm := s.Asm && AsmAvailable()
	pathName := "portable"
	if asm {
		pathName = "asm"
	}
	viol := func(class, op, role, detail string) {
		if res.Violation == nil {
			res.Violation = &core.Violation{Class: class, Op: op, Role: role, Param: pathName, Detail: detail}
			log.Add("VIOLATION %s %s %s: %s", class, op, role, detail)
		}
	}
	var shared, twin *c17World
	if p, txt, _, _ := core.Catch(func() { shared, twin = c17Build(s, asm), c17Build(s, asm) }); p {
		viol("panic", "setup", "objects", "building shared objects panicked: "+txt)
		return res
	}
	names, bufs, roles := shared.buffers()
	snaps := make([][]byte, len(bufs))
	for i, b := range bufs {
		snaps[i] = append([]byte{}, b...)
	}
	// concurrent phase
	var sch *sched.Sched
	if s.Explicit {
		sch = sched.NewExplicit(s.Switches, s.Ends)
	} else {
		sch = sched.NewSeeded(s.SchedSeed, s.Den)
	}
	sch.PinTasks, sch.Weights, sch.StartBurst = s.OwnThreads, s.Weights, s.StartBurst
	if s.OwnThreads {
		res.Faults["thread-per-task"]++
	}
	got := make([][]string, len(s.Tasks))
	events := make([][]c17Event, len(s.Tasks))
	damaged := make([]string, len(s.Tasks)) // first damaged shared buffer seen by each task (own slot only)
	checkShared := func(task int) {
		if damaged[task] != "" {
			return
		}
		for i, b := range bufs {
			if !bytes.Equal(b, snaps[i]) {
				damaged[task] = roles[i] + "|" + names[i]
				return
			}
		}
	}
	sch.OnStep = func(task int) {
		if !L2Enabled {
			checkShared(task)
		}
	}
	var fns []func()
	for t := range s.Tasks {
		t := t
		got[t] = make([]string, len(s.Tasks[t]))
		fns = append(fns, func() {
			y := func(site int) { sch.Yield(site) }
			for i, op := range s.Tasks[t] {
				sch.Yield(1000 + 2*kindIndex(op.Kind))
				o := c17Run(op, shared, y)
				got[t][i] = o
				events[t] = append(events[t], c17Event{sch.Count(), "t" + strconv.Itoa(t) + " op" + strconv.Itoa(i) + " " + op.Kind + " -> " + o})
				checkShared(t)
				sch.Yield(1001 + 2*kindIndex(op.Kind))
			}
		})
	}
	setCurrentSched(sch)
	// real-time bound against a task that blocks on something the scheduler does not own;
	// generous (crowds of a hundred tasks under the race detector on a loaded machine)
	finished := sch.Run(fns, s.First, 60*time.Second+time.Duration(len(fns))*3*time.Second)
	setCurrentSched(nil)
	res.Steps = int(sch.Count())
	if !finished {
		viol("no-progress", "scheduler", "tasks", "not every task finished: a task blocked on something the scheduler does not own")
		return res
	}
	// merge per-task events in schedule order
	var all []c17Event
	for _, ev := range events {
		all = append(all, ev...)
	}
	sort.SliceStable(all, func(i, j int) bool { return all[i].at < all[j].at })
	for _, e := range all {
		log.Add("%s", e.text)
	}
	log.Add("switches=%d ends=%v", len(sch.Rec), sch.RecEnds)
	// The serial reference pass (same calls, alone, on the private twin objects) runs AFTER
	// the concurrent phase: for a correct library the order is immaterial, but anything the
	// library initialises lazily at package level is then first touched under concurrency
	// (in the first run of each worker process) instead of being warmed up serially.
	expected := make([][]string, len(s.Tasks))
	noYield := func(int) {}
	for t, ops := range s.Tasks {
		for _, op := range ops {
			expected[t] = append(expected[t], c17Run(op, twin, noYield))
		}
	}
	// verdicts
	for t := range s.Tasks {
		for i, op := range s.Tasks[t] {
			if got[t][i] != expected[t][i] {
				class := "wrong-result"
				if strings.HasPrefix(got[t][i], "panic:") && !strings.HasPrefix(expected[t][i], "panic:") {
					class = "panic"
				}
				viol(class, op.Kind, "result", fmt.Sprintf("task %d op %d (%s) returned %q under this interleaving, %q when run alone", t, i, op.Kind, got[t][i], expected[t][i]))
			}
		}
	}
	for t := range s.Tasks {
		if damaged[t] != "" {
			p := strings.SplitN(damaged[t], "|", 2)
			viol("input-modified", "shared-buffer", p[0], fmt.Sprintf("shared read-only buffer %s changed while tasks were running (first seen by task %d)", p[1], t))
		}
	}
	for i, b := range bufs {
		if !bytes.Equal(b, snaps[i]) {
			viol("input-modified", "shared-buffer", roles[i], fmt.Sprintf("shared read-only buffer %s differs from its snapshot after the run", names[i]))
		}
	}
	// coverage accounting
	var shape []string
	ctUsers, aeadUsers, keyUsers := map[int]map[int]bool{}, map[int]map[int]bool{}, map[int]map[int]bool{}
	mark := func(m map[int]map[int]bool, k, t int) {
		if m[k] == nil {
			m[k] = map[int]bool{}
		}
		m[k][t] = true
	}
	for t, ops := range s.Tasks {
		var ks []string
		for _, op := range ops {
			ks = append(ks, op.Kind)
			switch op.Kind {
			case "Open":
				mark(ctUsers, op.C%s.NSealed, t)
				mark(aeadUsers, shared.ctA[op.C%s.NSealed], t)
			case "Seal":
				mark(aeadUsers, shared.ctA[op.C%s.NSealed], t)
			case "SignHashed", "VerifyHashed", "Verify", "DerivePublic", "CheckOnCurve", "SignFail":
				mark(keyUsers, op.K%s.NKeys, t)
			}
		}
		shape = append(shape, strings.Join(ks, "+"))
	}
	sort.Strings(shape)
	multi := func(m map[int]map[int]bool) bool {
		for _, v := range m {
			if len(v) >= 2 {
				return true
			}
		}
		return false
	}
	if multi(ctUsers) {
		res.Probes["same-ct-opened-by>=2-tasks"]++
		res.Faults["shared-ciphertext-opened-concurrently"]++
	}
	if multi(aeadUsers) {
		res.Probes["same-aead-used-by>=2-tasks"]++
		res.Faults["shared-aead"]++
	}
	if multi(keyUsers) {
		res.Probes["same-sm2key-used-by>=2-tasks"]++
		res.Faults["shared-sm2-key"]++
	}
	nsw := len(sch.Rec)
	res.Faults["context-switch"] += nsw
	if nsw >= 1 {
		res.Probes["switches>=1"]++
		res.Nontrivial = true
	}
	if nsw >= 8 {
		res.Probes["switches>=8"]++
	}
	if len(s.Tasks) >= 4 {
		res.Probes["tasks>=4"]++
	}
	if len(s.Tasks) >= 64 {
		res.Probes["tasks>=64"]++
		res.Faults["crowd"]++
		if nsw >= 256 {
			res.Probes["tasks>=64,switches>=256"]++
		}
	}
	bucket := "0"
	switch {
	case nsw >= 16:
		bucket = "16+"
	case nsw >= 4:
		bucket = "4..15"
	case nsw >= 1:
		bucket = "1..3"
	}
	res.Fingerprint = core.Fp(pathName, strings.Join(shape, "|"), bucket)
	var il strings.Builder
	fmt.Fprintf(&il, "%d:", s.First)
	for _, sw := range sch.Rec {
		fmt.Fprintf(&il, "%d>%d,", sw.At, sw.To)
	}
	fmt.Fprint(&il, sch.RecEnds)
	res.Interleave = il.String()
	return res
}

func kindIndex(k string) int {
	for i, x := range c17Kinds {
		if x == k {
			return i
		}
	}
	return len(c17Kinds)
}

// c17Explicit converts a seeded schedule into the explicit list it produced.
func c17Explicit(s *c17Script) *c17Script {
	raw, _ := json.Marshal(s)
	var c c17Script
	json.Unmarshal(raw, &c)
	if c.Explicit {
		return &c
	}
	asm := c.Asm && AsmAvailable()
	var sw []sched.Switch
	var ends []int
	core.Catch(func() {
		shared := c17Build(&c, asm)
		sch := sched.NewSeeded(c.SchedSeed, c.Den)
		sch.PinTasks, sch.Weights, sch.StartBurst = c.OwnThreads, c.Weights, c.StartBurst
		var fns []func()
		for t := range c.Tasks {
			t := t
			fns = append(fns, func() {
				y := func(site int) { sch.Yield(site) }
				for _, op := range c.Tasks[t] {
					sch.Yield(1000 + 2*kindIndex(op.Kind))
					c17Run(op, shared, y)
					sch.Yield(1001 + 2*kindIndex(op.Kind))
				}
			})
		}
		setCurrentSched(sch)
		sch.Run(fns, c.First, 60*time.Second+time.Duration(len(fns))*3*time.Second)
		setCurrentSched(nil)
		sw, ends = sch.Rec, sch.RecEnds
	})
	c.Explicit, c.Switches, c.Ends = true, sw, ends
	return &c
}

func (c17) Shrinks(sc core.Script) []core.Script {
	s := sc.(*c17Script)
	cp := func() *c17Script {
		raw, _ := json.Marshal(s)
		var c c17Script
		json.Unmarshal(raw, &c)
		return &c
	}
	// structural candidates change the yield counts, so they go back to the seeded
	// schedule; once the structure is minimal the schedule is made explicit and its
	// switches are removed one by one (a removed switch lets the running task continue).
	seeded := func() *c17Script {
		c := cp()
		c.Explicit, c.Switches, c.Ends = false, nil, nil
		return c
	}
	var out []core.Script
	for t := range s.Tasks {
		if len(s.Tasks) > 1 {
			c := seeded()
			c.Tasks = append(c.Tasks[:t], c.Tasks[t+1:]...)
			c.First = 0
			out = append(out, c)
		}
	}
	for t := range s.Tasks {
		for i := range s.Tasks[t] {
			if len(s.Tasks[t]) > 1 {
				c := seeded()
				c.Tasks[t] = append(c.Tasks[t][:i], c.Tasks[t][i+1:]...)
				out = append(out, c)
			}
		}
	}
	for t := range s.Tasks {
		for i, op := range s.Tasks[t] {
			if op.Dst.Mode != "nil" {
				c := seeded()
				c.Tasks[t][i].Dst = dstSpec{Mode: "nil"}
				out = append(out, c)
			}
		}
	}
	for i, m := range s.Msgs {
		for _, l := range []int{0, 1, 16, 17} {
			if l < m.Len {
				c := seeded()
				c.Msgs[i].Len = l
				out = append(out, c)
			}
		}
	}
	if len(s.AEADs) > 1 {
		c := seeded()
		c.AEADs = c.AEADs[:1]
		out = append(out, c)
	}
	if s.NSealed > 1 {
		c := seeded()
		c.NSealed = 1
		out = append(out, c)
	}
	if !s.Explicit {
		out = append(out, c17Explicit(s))
		return out
	}
	if n := len(s.Switches); n > 1 {
		c := cp()
		c.Switches = c.Switches[:n/2]
		out = append(out, c)
	}
	for i := range s.Switches {
		c := cp()
		c.Switches = append(c.Switches[:i], c.Switches[i+1:]...)
		out = append(out, c)
	}
	return out
}

// tf and panicText format without fmt: code that runs inside the tasks must not use
// fmt, whose internal sync.Pool would create happens-before edges between tasks and
// could hide a race from the detector (which edge exists depends on which P each
// goroutine happens to run on, i.e. is not reproducible).
func tf(b bool) string {
	if b {
		return "T"
	}
	return "F"
}

func panicText(r interface{}) string {
	switch x := r.(type) {
	case string:
		return x
	case error:
		return x.Error()
	}
	return "non-string panic value"
}

package props

const l3Magic = 0x5645524946594D4B

//go:noescape
func l3marker(kind, client, aux uint64)

//go:build !verifl2

package props

import "verif/sim/sched"

// L2Enabled reports whether the library under test carries statement-level yield points
// (scratch copy instrumented by cmd/yieldinst, build tag verifl2).
const L2Enabled = false

func setCurrentSched(*sched.Sched) {}

#include "textflag.h"

// func l3marker(kind, client, aux uint64)
// Executes INT3 with a magic value in AX so that the ptrace scheduler can tell its own
// markers from any other trap. Only ever called in a traced process.
TEXT ·l3marker(SB),NOSPLIT,$0-24
	MOVQ kind+0(FP), BX
	MOVQ client+8(FP), CX
	MOVQ aux+16(FP), DX
	MOVQ $0x5645524946594D4B, AX
	BYTE $0xCC
	RET

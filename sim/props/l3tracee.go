package props

import (
	"bytes"
	"crypto/cipher"
	"encoding/json"
	"fmt"
	"os"
	"runtime"
	"runtime/debug"

	"github.com/bilibili/smgo/sm4"

	"verif/sim/core"
)

// l3Op is one library call made by a client thread in an L3 experiment.
type l3Op struct {
	Kind   string  `json:"kind"` // Seal | Open | Encrypt | Decrypt | NewCipher
	PtLen  int     `json:"pt_len,omitempty"`
	AadLen int     `json:"aad_len,omitempty"`
	Msg    int     `json:"msg,omitempty"`   // which of the two shared messages / ciphertexts
	Nonce  int     `json:"nonce,omitempty"` // which of the two shared nonces (Seal)
	Dst    dstSpec `json:"dst"`
}

type c17l3Script struct {
	AEAD aeadSpec `json:"aead"`
	Seed uint64   `json:"seed"`
	A    l3Op     `json:"a"`
	B    l3Op     `json:"b"`
	KPm  int      `json:"k_pm"`         // preemption point of A as per-mille of its library instruction count
	K    int      `json:"k,omitempty"`  // absolute preemption point (set by the shrinker; overrides KPm)
	K2Pm int      `json:"k2_pm"`        // >=0: B is itself preempted after this per-mille and A finishes first
	K2   int      `json:"k2,omitempty"` // absolute form of K2Pm
	// Prelude: operations performed serially on the shared objects before the clients
	// start (history): "open-forged" = an Open that is rejected, "open-ok", "seal".
	Prelude []string `json:"prelude,omitempty"`
}

type l3Verdict struct {
	AOK, BOK, SharedOK bool
	A, B, WantA, WantB string
	Damaged            string
}

type l3World struct {
	aead   cipher.AEAD
	blk    cipher.Block
	spec   aeadSpec
	key    []byte
	msgs   [2][]byte
	aads   [2][]byte
	nonces [2][]byte
	cts    [2][]byte
	blk16  []byte
}

func l3Build(s *c17l3Script) *l3World {
	w := &l3World{key: cloneSlack(unhx(s.AEAD.Key))}
	a, b, spec, err := mkAEADKey(s.AEAD, w.key, true)
	if err != nil {
		panic(err)
	}
	w.aead, w.blk, w.spec = a, b, spec
	lens := [2]int{s.A.PtLen, s.B.PtLen}
	alens := [2]int{s.A.AadLen, s.B.AadLen}
	for i := 0; i < 2; i++ {
		w.msgs[i] = cloneSlack(seededBytes(s.Seed^uint64(10+i), lens[i], false))
		w.aads[i] = cloneSlack(seededBytes(s.Seed^uint64(20+i), alens[i], false))
		w.nonces[i] = cloneSlack(seededBytes(s.Seed^uint64(30+i), spec.NonceSize, false))
		tmp, _, _, err := mkAEADKey(s.AEAD, unhx(s.AEAD.Key), true)
		if err != nil {
			panic(err)
		}
		w.cts[i] = cloneSlack(tmp.Seal(nil, w.nonces[i], w.msgs[i], w.aads[i])) // the shared AEAD stays unused until the clients start
	}
	w.blk16 = cloneSlack(seededBytes(s.Seed^40, 16, false))
	return w
}

func (w *l3World) shared() (names []string, bufs [][]byte) {
	names = []string{"key", "plaintext0", "plaintext1", "aad0", "aad1", "nonce0", "nonce1", "ciphertext0", "ciphertext1", "block"}
	bufs = [][]byte{w.key, w.msgs[0], w.msgs[1], w.aads[0], w.aads[1], w.nonces[0], w.nonces[1], w.cts[0], w.cts[1], w.blk16}
	return
}

// l3Prep allocates everything the call needs beforehand so that the traced region is
// (almost) only library code.
func l3Prep(op l3Op, w *l3World) func() ([]byte, bool) {
	m, n := op.Msg&1, op.Nonce&1
	switch op.Kind {
	case "Seal":
		dst := mkDst(op.Dst)
		if op.Dst.Mode == "nil" {
			dst = slackBuf(0, len(w.msgs[m])+w.spec.TagSize)
		}
		return func() ([]byte, bool) {
			return w.aead.Seal(dst, w.nonces[n], w.msgs[m], w.aads[m]), false
		}
	case "Open":
		dst := mkDst(op.Dst)
		if op.Dst.Mode == "nil" {
			dst = slackBuf(0, len(w.msgs[m]))
		}
		return func() ([]byte, bool) {
			o, err := w.aead.Open(dst, w.nonces[m], w.cts[m], w.aads[m])
			return o, err != nil
		}
	case "Encrypt", "Decrypt":
		dst := slackBuf(16, 16)
		return func() ([]byte, bool) {
			if op.Kind == "Encrypt" {
				w.blk.Encrypt(dst, w.blk16)
			} else {
				w.blk.Decrypt(dst, w.blk16)
			}
			return dst, false
		}
	case "NewCipher":
		dst := slackBuf(16, 16)
		return func() ([]byte, bool) {
			b, err := sm4.NewCipher(w.key)
			if err != nil {
				return nil, true
			}
			b.Encrypt(dst, w.blk16)
			return dst, false
		}
	}
	panic("l3: unknown op " + op.Kind)
}

// L3TraceeMain is the body of the traced process. It prints one JSON verdict line.
func L3TraceeMain(scriptJSON string) {
	debug.SetGCPercent(-1)
	var s c17l3Script
	if err := json.Unmarshal([]byte(scriptJSON), &s); err != nil {
		fmt.Fprintln(os.Stderr, "l3tracee: bad script:", err)
		os.Exit(3)
	}
	if !AsmAvailable() {
		fmt.Println(`{"skip":"no-asm"}`)
		return
	}
	shared, twin := l3Build(&s), l3Build(&s)
	names, bufs := shared.shared()
	snaps := make([][]byte, len(bufs))
	for i, b := range bufs {
		snaps[i] = append([]byte{}, b...)
	}
	fmtRes := func(o []byte, e bool) string { return fmt.Sprint(hx(o), e) }
	for _, w := range []*l3World{twin, shared} {
		for _, step := range s.Prelude {
			switch step {
			case "open-forged":
				bad := cloneSlack(w.cts[0])
				bad[len(bad)-1] ^= 1
				w.aead.Open(nil, w.nonces[0], bad, w.aads[0])
			case "open-ok":
				w.aead.Open(nil, w.nonces[0], w.cts[0], w.aads[0])
			case "seal":
				w.aead.Seal(nil, w.nonces[1], w.msgs[1], w.aads[1])
			}
		}
	}
	wantA, wantB := fmtRes(l3Prep(s.A, twin)()), fmtRes(l3Prep(s.B, twin)())
	fa, fb := l3Prep(s.A, shared), l3Prep(s.B, shared)
	res := make(chan [2]string, 2)
	run := func(id uint64, f func() ([]byte, bool)) {
		runtime.LockOSThread()
		runtime.Gosched() // absorb any pending preemption request and restart the scheduler's run-time clock
		l3marker(1, id, 0)
		o, e := f()
		l3marker(2, id, 0)
		res <- [2]string{fmt.Sprint(id), fmtRes(o, e)}
	}
	go run(0, fa)
	go run(1, fb)
	var v l3Verdict
	for i := 0; i < 2; i++ {
		r := <-res
		if r[0] == "0" {
			v.A = r[1]
		} else {
			v.B = r[1]
		}
	}
	v.WantA, v.WantB = wantA, wantB
	v.AOK, v.BOK, v.SharedOK = v.A == wantA, v.B == wantB, true
	for i, b := range bufs {
		if !bytes.Equal(b, snaps[i]) {
			v.SharedOK = false
			v.Damaged = names[i]
			break
		}
	}
	// keep digests short
	short := func(x string) string {
		if len(x) > 24 {
			return x[:8] + ".." + core.Hex8([]byte(x))
		}
		return x
	}
	v.A, v.B, v.WantA, v.WantB = short(v.A), short(v.B), short(v.WantA), short(v.WantB)
	o, _ := json.Marshal(v)
	fmt.Println(string(o))
}

package props

import (
	"bytes"
	"crypto/cipher"
	"encoding/json"
	"fmt"
	"sort"
	"strings"

	"verif/sim/core"
	"verif/sim/dev/wire"
)

// C07 — Open releases plaintext only for an authentic message.
//
// System: sealer node -> corrupting wire -> opener node sharing a key, several messages
// in flight. The wire's own record of what it delivered is the oracle: a delivered
// (nonce, ciphertext, aad) byte-identical to a triple the sealer produced must open to
// that message; every other delivered triple must give an error and no plaintext.

type c07Msg struct {
	PtLen, AadLen              int
	PtSeed, AadSeed, NonceSeed uint64
}

type c07Delivery struct {
	Msg   int        `json:"msg"`
	Other int        `json:"other,omitempty"`
	Muts  []wire.Mut `json:"muts,omitempty"`
	Dst   dstSpec    `json:"dst"`
	Cold  bool       `json:"cold,omitempty"` // the opener makes this call on an OS thread that never ran library code (seam S7)
}

type c07Script struct {
	Asm        bool          `json:"asm"`
	AEAD       aeadSpec      `json:"aead"`
	Prior      []aeadSpec    `json:"prior,omitempty"` // AEADs built earlier on the same Block (key field ignored)
	Msgs       []c07Msg      `json:"msgs"`
	Deliveries []c07Delivery `json:"deliveries"`
	ColdSeal   bool          `json:"cold_seal,omitempty"` // the sealer works on a fresh OS thread per call
	Giant      string        `json:"giant,omitempty"`     // one message of 2^32 bytes or more (see giant.go); everything else is ignored
}

type c07 struct{}

func init()            { core.Register(c07{}) }
func (c07) ID() string { return "C07" }

func (c07) Plan(tier string) core.Plan {
	if tier == "thorough" {
		return core.Plan{Systematic: c07SysN + len(c07Giants), Seeded: 1500000}
	}
	return core.Plan{Systematic: c07SysN, Seeded: 120000}
}

// systematic: for plaintext lengths {0,1,16,17,64,100} x tag sizes {12,16}: every
// single-bit flip of the tag, every truncation length 0..len, first/last bit of body,
// nonce and aad. One script per (ptlen, tagsize), many deliveries each.
var c07SysPt = []int{0, 1, 16, 17, 64, 100}

const c07SysSmall = 6 * 2 * 2

// long messages (the bulk loops of the accelerated routines): 2^k + delta bytes
var c07BigK = []uint{17, 18, 20, 22}
var c07BigDelta = []int{0, 1, 47, 63}

const c07SysN = c07SysSmall + 4*4

// thorough tier only: messages whose body, total length or additional data reach 2^32 bytes
var c07Giants = []string{"body", "k3", "aad"}

func (c07) Meta() core.Meta {
	return core.Meta{
		Level: "exploration",
		Rule: "systematic: long messages of 2^k + {0,1,47,63} bytes for k in {17,18,20,22} (authentic, three single-bit forgeries, authentic in place); plaintext lengths {0,1,16,17,64,100} x tag sizes {12,16} x {assembly, portable}: every single-bit flip of the tag, every truncation of the ciphertext to 0..len-1 bytes, extensions by 1 and 16 bytes, first/last-bit flips of body, nonce and aad; seeded: 1-4 sealed messages per run (all length classes 0..1100, nonce sizes 1..300, tag sizes 12..16), 1-8 deliveries each through the wire: untouched, replayed, single-bit flip in body/tag/nonce/aad, truncation (incl. below the tag size), extension, tag truncated/extended, tag of A on body of B, nonce/aad of A with message B; opener destination nil / spare capacity / in place. thorough tier only: three messages of 2^32 bytes and more (body 2^32+5 with a forged copy whose flipped bit lies beyond offset 2^32; total length 2^32+3; additional data 2^32+7), opened into a fresh destination and in place. " +
			"non-trivial = the wire changed or replayed something, or the opener used a non-nil destination; distinct = distinct (path, nonce/tag size class, multiset of (corruption kind x field, plaintext length class, dst class, expected verdict))",
		Components: map[string]string{"sm4 GCM Seal/Open (amd64 assembly)": "real", "crypto/cipher generic GCM over portable sm4 (path switch off)": "real", "wire": "stub (simulated corruption)", "arm64 assembly": "not run",
			"oracle": "the wire's own record (byte identity with a sealed triple); keystream for the would-be plaintext from the library's own Seal of zeros"},
		Assumptions: []string{"a delivered triple that differs from every sealed one is not authentic (a chance forgery has probability <= 2^-96)", "nonce corruption keeps the nonce length (a wrong-length nonce panics by crypto/cipher convention and is API misuse)",
			"leak check of rejected plaintext in caller-visible memory only for bodies >= 16 bytes (chance match <= 2^-128)"},
		FaultKinds: []string{"wire:flip:body", "wire:flip:tag", "wire:flip:nonce", "wire:flip:aad", "wire:trunc<tag", "wire:trunc>=tag", "wire:extend", "wire:tailsplice", "wire:splice:nonce", "wire:splice:aad", "wire:splice:ct", "wire:insert", "wire:drop", "replay", "untouched", "history:other-aeads-on-same-block", "thread:cold-open", "thread:cold-seal"},
		ProbeNames: []string{"authentic-opened", "forgery-rejected", "reassembled-original", "shorter-than-tag", "empty-plaintext", "dst-leak-checked", "nonce!=12", "tag<16"},
		StepUnit:   "deliveries + seal/open calls",
	}
}

func c07GenMut(f *core.Rand, ptLen, tag, nonceLen, aadLen int) wire.Mut {
	ctLen := ptLen + tag
	switch f.Weighted(5, 6, 3, 3, 3, 2, 2, 2, 1, 1, 1, 1) {
	case 0:
		if ptLen > 0 {
			return wire.Mut{Field: "ct", Kind: "flip", I: f.Intn(8 * ptLen)}
		}
		fallthrough
	case 1:
		return wire.Mut{Field: "ct", Kind: "flip", I: 8*ptLen + f.Intn(8*tag)}
	case 2:
		if f.Chance(1, 3) { // last byte
			return wire.Mut{Field: "nonce", Kind: "flip", I: 8*(nonceLen-1) + f.Intn(8)}
		}
		return wire.Mut{Field: "nonce", Kind: "flip", I: f.Intn(8 * nonceLen)}
	case 3:
		if aadLen > 0 {
			switch f.Intn(4) {
			case 0: // last byte
				return wire.Mut{Field: "aad", Kind: "flip", I: 8*(aadLen-1) + f.Intn(8)}
			case 1: // first byte
				return wire.Mut{Field: "aad", Kind: "flip", I: f.Intn(8)}
			}
			return wire.Mut{Field: "aad", Kind: "flip", I: f.Intn(8 * aadLen)}
		}
		return wire.Mut{Field: "aad", Kind: "extend", I: 1, V: f.Intn(256)}
	case 4: // truncation, biased to the tag boundary
		return wire.Mut{Field: "ct", Kind: "dropend", I: f.PickInt(1, 1, tag-1, tag, tag+1, f.Range(1, ctLen), ctLen)}
	case 5:
		return wire.Mut{Field: "ct", Kind: "extend", I: f.PickInt(1, 1, 4, 16, 32), V: f.PickInt(0, 0, f.Intn(256))}
	case 6:
		return wire.Mut{Field: "ct", Kind: "tailsplice", I: tag, Other: "other.ct"}
	case 7:
		return wire.Mut{Field: []string{"nonce", "aad", "ct"}[f.Intn(3)], Kind: "splice"}
	case 8:
		return wire.Mut{Field: "ct", Kind: "insert", I: f.Intn(ctLen + 1), V: f.Intn(256)}
	case 9:
		return wire.Mut{Field: "ct", Kind: "drop", I: f.Intn(ctLen)}
	case 10:
		return wire.Mut{Field: "aad", Kind: "dropend", I: 1}
	}
	return wire.Mut{Field: "aad", Kind: "extend", I: f.PickInt(1, 15, 16), V: 0}
}

func (c07) Generate(idx int, r *core.Rand, tier string) core.Script {
	if tier == "thorough" && idx >= c07SysN && idx < c07SysN+len(c07Giants) {
		return &c07Script{Asm: true, AEAD: aeadSpec{NonceSize: 12, TagSize: 16}, Giant: c07Giants[idx-c07SysN]}
	}
	if idx >= c07SysSmall && idx < c07SysN {
		j := idx - c07SysSmall
		pt := 1<<c07BigK[j/4] + c07BigDelta[j%4]
		s := &c07Script{Asm: true, AEAD: aeadSpec{Key: hx(bytes.Repeat([]byte{byte(0x70 + j)}, 16)), NonceSize: 12, TagSize: 16},
			Msgs: []c07Msg{{PtLen: pt, AadLen: 21, PtSeed: 11, AadSeed: 12, NonceSeed: 13}}}
		for _, m := range [][]wire.Mut{nil, {{Field: "ct", Kind: "flip", I: 8*pt - 1}}, {{Field: "ct", Kind: "flip", I: 8 * (pt / 2)}}, {{Field: "ct", Kind: "flip", I: 8*pt + 127}}, nil} {
			s.Deliveries = append(s.Deliveries, c07Delivery{Msg: 0, Muts: m, Dst: dstSpec{Mode: "nil"}})
		}
		s.Deliveries[4].Dst = dstSpec{Mode: "inplace"}
		return s
	}
	if idx < c07SysSmall {
		i := idx
		asm := i%2 == 0
		i /= 2
		tag := []int{12, 16}[i%2]
		i /= 2
		pt := c07SysPt[i]
		s := &c07Script{Asm: asm, AEAD: aeadSpec{Key: hx(bytes.Repeat([]byte{byte(0x40 + idx)}, 16)), NonceSize: 12, TagSize: tag},
			Msgs: []c07Msg{{PtLen: pt, AadLen: 5, PtSeed: 1, AadSeed: 2, NonceSeed: 3}, {PtLen: pt, AadLen: 5, PtSeed: 4, AadSeed: 5, NonceSeed: 6}}}
		add := func(m ...wire.Mut) {
			s.Deliveries = append(s.Deliveries, c07Delivery{Msg: 0, Other: 1, Muts: m, Dst: dstSpec{Mode: "fresh", Len: 3, Spare: pt + 8}})
		}
		add()
		for b := 0; b < 8*tag; b++ {
			add(wire.Mut{Field: "ct", Kind: "flip", I: 8*pt + b})
		}
		for k := 1; k <= pt+tag; k++ {
			add(wire.Mut{Field: "ct", Kind: "dropend", I: k})
		}
		add(wire.Mut{Field: "ct", Kind: "extend", I: 1})
		add(wire.Mut{Field: "ct", Kind: "extend", I: 16})
		if pt > 0 {
			add(wire.Mut{Field: "ct", Kind: "flip", I: 0})
			add(wire.Mut{Field: "ct", Kind: "flip", I: 8*pt - 1})
		}
		add(wire.Mut{Field: "nonce", Kind: "flip", I: 0})
		add(wire.Mut{Field: "nonce", Kind: "flip", I: 95})
		add(wire.Mut{Field: "aad", Kind: "flip", I: 0})
		add(wire.Mut{Field: "aad", Kind: "flip", I: 39})
		add(wire.Mut{Field: "ct", Kind: "tailsplice", I: tag, Other: "other.ct"})
		add()
		return s
	}
	w := r.Split("workload")
	f := r.Split("faults")
	s := &c07Script{Asm: w.Chance(3, 4), AEAD: genAEADSpec(w)}
	if w.Chance(1, 4) {
		for i := w.Range(1, 2); i > 0; i-- {
			p := genAEADSpec(w)
			if w.Chance(1, 2) {
				p.NonceSize = s.AEAD.NonceSize
			}
			s.Prior = append(s.Prior, p)
		}
	}
	nm := w.Range(1, 4)
	for i := 0; i < nm; i++ {
		m := c07Msg{PtLen: c10GenLen(w), AadLen: w.PickInt(0, 0, 1, 13, 16, 17, 32, 64, 100, 127, 128, 129, 133, 143, 144, 192, 193, 200, 207, 256, 257, 261, 300), PtSeed: w.Uint64(), AadSeed: w.Uint64(), NonceSeed: w.Uint64()}
		if i > 0 && w.Chance(1, 3) { // same length as message 0 so that splices line up
			m.PtLen = s.Msgs[0].PtLen
		}
		if i > 0 && w.Chance(1, 4) {
			m.AadLen, m.AadSeed = s.Msgs[0].AadLen, s.Msgs[0].AadSeed
		}
		s.Msgs = append(s.Msgs, m)
	}
	nd := w.Range(1, 8)
	if w.Chance(1, 300) { // a long-lived connection
		nd = w.Range(40, 160)
	}
	for i := 0; i < nd; i++ {
		d := c07Delivery{Msg: w.Intn(nm), Other: w.Intn(nm)}
		m := s.Msgs[d.Msg]
		switch f.Weighted(2, 7, 1) {
		case 1:
			d.Muts = []wire.Mut{c07GenMut(f, m.PtLen, s.AEAD.TagSize, s.AEAD.NonceSize, m.AadLen)}
		case 2:
			d.Muts = []wire.Mut{c07GenMut(f, m.PtLen, s.AEAD.TagSize, s.AEAD.NonceSize, m.AadLen), c07GenMut(f, m.PtLen, s.AEAD.TagSize, s.AEAD.NonceSize, m.AadLen)}
		}
		for j := range d.Muts {
			if d.Muts[j].Kind == "splice" {
				d.Muts[j].Other = "other." + d.Muts[j].Field
			}
		}
		d.Dst = genDst(w, m.PtLen, true)
		d.Cold = f.Chance(1, 8)
		s.Deliveries = append(s.Deliveries, d)
	}
	s.ColdSeal = f.Chance(1, 10)
	return s
}

func (c07) Decode(raw json.RawMessage) (core.Script, error) {
	var s c07Script
	if err := json.Unmarshal(raw, &s); err != nil {
		return nil, err
	}
	if len(s.Msgs) == 0 && s.Giant == "" {
		return nil, fmt.Errorf("C07 script needs a message")
	}
	return &s, nil
}

type c07Sealed struct{ nonce, pt, aad, ct []byte }

func xorBytes(a, b []byte) []byte {
	o := make([]byte, len(a))
	for i := range a {
		o[i] = a[i] ^ b[i]
	}
	return o
}

func (c07) Execute(sc core.Script, keep bool) *core.Result {
	s := sc.(*c07Script)
	res := core.NewResult()
	log := &core.Log{Keep: keep}
	defer func() {
		res.EventHash = log.Hash()
		res.Steps = log.Steps()
		res.LogLines = log.Lines
	}()
	if s.Giant != "" {
		obs, skipped := runGiant(s.Giant, s.Giant == "body", res, log)
		res.Fingerprint, res.Nontrivial = "giant-"+s.Giant, !skipped
		for _, o := range obs {
			switch o.Kind {
			case "authentic-rejected", "wrong-plaintext", "wrong-length", "forgery-accepted", "panic", "fault":
				cl := o.Kind
				if cl == "fault" {
					cl = "panic"
				}
				res.Violation = &core.Violation{Class: cl, Op: "Open", Role: "giant", Param: s.Giant + ">=2^32", Detail: o.Op + ": " + o.Detail}
				return res
			}
		}
		return res
	}
	asm := s.Asm && AsmAvailable()
	pathName := "portable"
	if asm {
		pathName = "asm"
	}
	var vio *core.Violation
	report := func(class, op, role, param, detail string) {
		if vio == nil {
			vio = &core.Violation{Class: class, Op: op, Role: role, Param: param, Detail: detail}
			log.Add("VIOLATION %s %s %s %s: %s", class, op, role, param, detail)
		}
	}
	gcmCanon()
	var a, sealer cipher.AEAD // opener's and sealer's AEAD: two nodes, each with its own objects built from the shared key
	var spec aeadSpec
	var sealed []c07Sealed
	if p, txt, _, _ := core.Catch(func() {
		var err error
		a, _, spec, err = mkAEADHistory(s.AEAD, unhx(s.AEAD.Key), asm, s.Prior)
		if err != nil {
			panic(err)
		}
		sealer, _, _, err = mkAEADKey(s.AEAD, unhx(s.AEAD.Key), asm)
		if err != nil {
			panic(err)
		}
		if len(s.Prior) > 0 {
			res.Faults["history:other-aeads-on-same-block"]++
		}
		if s.ColdSeal {
			res.Faults["thread:cold-seal"]++
		}
		// sealer node: fault-free
		for i, m := range s.Msgs {
			sm := c07Sealed{nonce: seededBytes(m.NonceSeed, spec.NonceSize, false), pt: seededBytes(m.PtSeed, m.PtLen, false), aad: seededBytes(m.AadSeed, m.AadLen, false)}
			core.On(s.ColdSeal, func() { sm.ct = sealer.Seal(nil, cloneSlack(sm.nonce), cloneSlack(sm.pt), cloneSlack(sm.aad)) })
			log.Add("sealed msg%d pt=%d aad=%d ct=%s", i, m.PtLen, m.AadLen, core.Hex8(sm.ct))
			sealed = append(sealed, sm)
		}
	}); p {
		report("panic", "Seal", "sealer", pathName, "sealer panicked: "+txt)
	}
	if spec.NonceSize != 12 {
		res.Probes["nonce!=12"]++
	}
	if spec.TagSize < 16 {
		res.Probes["tag<16"]++
	}
	var kinds []string
	seenUntouched := map[int]bool{}
	for di, d := range s.Deliveries {
		if vio != nil {
			break
		}
		base := sealed[d.Msg%len(sealed)]
		other := sealed[d.Other%len(sealed)]
		in := map[string][]byte{"nonce": base.nonce, "ct": base.ct, "aad": base.aad, "other.nonce": other.nonce, "other.ct": other.ct, "other.aad": other.aad}
		var muts []wire.Mut
		for _, m := range d.Muts { // nonce corruption must keep the nonce length
			if m.Field == "nonce" && m.Kind != "flip" && m.Kind != "splice" {
				continue
			}
			muts = append(muts, m)
		}
		out, _, applied := wire.ApplyEach(in, muts)
		nonce, ct, aad := out["nonce"], out["ct"], out["aad"]
		// what did the wire really do?
		var mk []string
		for mi, m := range muts {
			if !applied[mi] {
				continue
			}
			k := m.Kind + ":" + m.Field
			if m.Field == "ct" && m.Kind == "flip" {
				bit := 0
				if len(base.ct) > 0 {
					bit = m.I % (8 * len(base.ct))
				}
				if bit/8 >= len(base.pt) {
					k = "flip:tag"
				} else {
					k = "flip:body"
				}
			}
			if m.Field == "ct" && m.Kind == "dropend" {
				if len(base.ct)-m.I < spec.TagSize {
					k = "trunc<tag"
				} else {
					k = "trunc>=tag"
				}
			}
			mk = append(mk, k)
		}
		sort.Strings(mk)
		// oracle: identity with a sealed triple
		var expect *c07Sealed
		for i := range sealed {
			if bytes.Equal(nonce, sealed[i].nonce) && bytes.Equal(ct, sealed[i].ct) && bytes.Equal(aad, sealed[i].aad) {
				expect = &sealed[i]
				break
			}
		}
		kind := strings.Join(mk, "+")
		switch {
		case len(mk) == 0 && seenUntouched[d.Msg%len(sealed)]:
			kind = "replay"
		case len(mk) == 0:
			kind = "untouched"
			seenUntouched[d.Msg%len(sealed)] = true
		case expect != nil:
			res.Probes["reassembled-original"]++
		}
		for _, k := range mk {
			res.Faults["wire:"+k]++
		}
		if len(mk) == 0 {
			res.Faults[kind]++
		}
		if len(ct) < spec.TagSize {
			res.Probes["shorter-than-tag"]++
		}
		bodyLen := len(ct) - spec.TagSize
		if bodyLen < 0 {
			bodyLen = 0
		}
		if bodyLen == 0 && expect != nil {
			res.Probes["empty-plaintext"]++
		}
		dc := d.Dst.class(bodyLen)
		verdict := "reject"
		if expect != nil {
			verdict = "open"
		}
		kinds = append(kinds, kind+"/"+core.LenClass(bodyLen)+"/"+dc+"/"+verdict)
		if d.Dst.Mode != "nil" || len(mk) > 0 || kind == "replay" {
			res.Nontrivial = true
		}
		// would-be plaintext of a forged body, for the leak check
		var wouldBe []byte
		if expect == nil && bodyLen >= 16 && d.Dst.Mode != "nil" && len(nonce) == spec.NonceSize {
			core.Catch(func() {
				ks := sealer.Seal(nil, cloneSlack(nonce), make([]byte, bodyLen), nil)
				wouldBe = xorBytes(ct[:bodyLen], ks[:bodyLen])
			})
		}
		// opener node
		var outPt, dst, prefix, scratch []byte
		var err error
		p, txt, _, _ := core.Catch(func() {
			n2, c2, a2 := cloneSlack(nonce), cloneSlack(ct), cloneSlack(aad)
			if strings.HasPrefix(d.Dst.Mode, "inplace") {
				var d0, in0 []byte
				scratch, d0, in0 = inplaceBuf(d.Dst, c2)
				prefix = append([]byte{}, d0...)
				core.On(d.Cold, func() { outPt, err = a.Open(d0, n2, in0, a2) })
			} else {
				dst = mkDst(d.Dst)
				prefix = append([]byte{}, dst...)
				core.On(d.Cold, func() { outPt, err = a.Open(dst, n2, c2, a2) })
			}
			if d.Cold {
				res.Faults["thread:cold-open"]++
			}
		})
		log.Add("delivery%d msg%d %s ct=%d dst=%s expect=%s -> panic=%v err=%v out=%s", di, d.Msg, kind, len(ct), dc, verdict, p, err != nil, core.Hex8(outPt))
		param := kind
		if p {
			report("panic", "Open", "opener", param+"/"+dc, fmt.Sprintf("Open panicked on %s (ct %d bytes, tag %d, dst %s): %s", kind, len(ct), spec.TagSize, dc, txt))
			break
		}
		if expect != nil {
			res.Probes["authentic-opened"]++
			if err != nil {
				report("rejected-authentic", "Open", "opener", param, fmt.Sprintf("a triple exactly as sealed (pt %d bytes, aad %d, nonce %d, tag %d; %s) was rejected: %v", len(expect.pt), len(aad), len(nonce), spec.TagSize, kind, err))
				break
			}
			// only the released plaintext is judged here; what happens to the bytes of dst in
			// front of it is the buffer contract (C10)
			if len(outPt) < len(prefix) || !bytes.Equal(outPt[len(prefix):], expect.pt) {
				report("wrong-plaintext", "Open", "opener", param+"/"+dc, fmt.Sprintf("opened plaintext %x, sealed plaintext %x", outPt, expect.pt))
			}
			continue
		}
		res.Probes["forgery-rejected"]++
		if err == nil {
			report("accepted-forgery", "Open", "opener", param, fmt.Sprintf("wire fault %s on (pt %d, tag %d, nonce %d, aad %d) accepted: err=nil, out=%x", kind, bodyLen, spec.TagSize, len(nonce), len(aad), outPt))
			break
		}
		if len(outPt) != 0 {
			report("plaintext-with-error", "Open", "opener", param, fmt.Sprintf("error returned together with %d bytes: %x", len(outPt), outPt))
			break
		}
		if wouldBe != nil {
			res.Probes["dst-leak-checked"]++
			var visible []byte
			if strings.HasPrefix(d.Dst.Mode, "inplace") {
				visible = scratch[:cap(scratch)]
			} else if dst != nil {
				visible = dst[:cap(dst)]
			}
			if bytes.Contains(visible, wouldBe) {
				report("plaintext-leaked-in-dst", "Open", "opener", param+"/"+dc, fmt.Sprintf("rejected message (%s) but its decryption is in the caller's buffer: %x", kind, wouldBe))
			}
		}
	}
	res.Violation = vio
	sort.Strings(kinds)
	res.Fingerprint = core.Fp(pathName, fmt.Sprint(spec.NonceSize == 12, spec.TagSize), strings.Join(kinds, ","))
	return res
}

func (c07) Shrinks(sc core.Script) []core.Script {
	s := sc.(*c07Script)
	if s.Giant != "" {
		return nil // a single enumerated case: nothing to minimise
	}
	cp := func() *c07Script {
		raw, _ := json.Marshal(s)
		var c c07Script
		json.Unmarshal(raw, &c)
		return &c
	}
	var out []core.Script
	if n := len(s.Deliveries); n > 2 {
		c := cp()
		c.Deliveries = c.Deliveries[n/2:]
		out = append(out, c)
		c = cp()
		c.Deliveries = c.Deliveries[:n/2]
		out = append(out, c)
	}
	for _, rg := range core.DropRanges(len(s.Deliveries)) {
		c := cp()
		c.Deliveries = append(c.Deliveries[:rg[0]], c.Deliveries[rg[1]:]...)
		out = append(out, c)
	}
	for i, d := range s.Deliveries {
		if len(s.Deliveries) > 24 {
			break
		}
		for j := range d.Muts {
			c := cp()
			c.Deliveries[i].Muts = append(c.Deliveries[i].Muts[:j], c.Deliveries[i].Muts[j+1:]...)
			out = append(out, c)
		}
		if d.Dst.Mode != "nil" {
			c := cp()
			c.Deliveries[i].Dst = dstSpec{Mode: "nil"}
			out = append(out, c)
		}
	}
	if len(s.Msgs) > 1 {
		c := cp()
		c.Msgs = c.Msgs[:1]
		out = append(out, c)
	}
	if len(s.Prior) > 0 {
		c := cp()
		c.Prior = nil
		out = append(out, c)
	}
	for i, m := range s.Msgs {
		for _, l := range []int{0, 1, 16, 17, m.PtLen / 2} {
			if l < m.PtLen {
				c := cp()
				c.Msgs[i].PtLen = l
				out = append(out, c)
			}
		}
		if m.AadLen > 0 {
			c := cp()
			c.Msgs[i].AadLen = 0
			out = append(out, c)
		}
	}
	if s.AEAD.NonceSize != 12 || s.AEAD.TagSize != 16 {
		c := cp()
		c.AEAD.NonceSize, c.AEAD.TagSize = 12, 16
		out = append(out, c)
	}
	if s.Asm {
		c := cp()
		c.Asm = false
		out = append(out, c)
	}
	return out
}

package props

import (
	"math/big"
	"testing"

	"verif/sim/core"
	"verif/sim/ref"
)

func TestXForY(t *testing.T) {
	r := core.NewRand(7)
	// every point's own y must give back its x
	for i := 0; i < 20; i++ {
		p := ref.MulG(randScalar(r))
		found := false
		for _, x := range xForY(p.Y, r) {
			if x.Cmp(p.X) == 0 {
				found = true
			}
		}
		if !found {
			t.Fatalf("x of [k]G not among the roots for its y")
		}
	}
	none, total := 0, 0
	for i := 0; i < 30; i++ {
		x, y := smallYPoint(r)
		if !ref.OnCurve(x, y) || y.BitLen() > 223 {
			t.Fatalf("smallYPoint: bad point")
		}
		if new(big.Int).Add(y, ref.SM2P).BitLen() > 256 {
			t.Fatalf("y+p does not fit")
		}
		total++
	}
	_ = none
	if total != 30 {
		t.Fatal("unreachable")
	}
}

package props

import (
	"bytes"
	"encoding/json"
	"fmt"
	"io"
	"math/big"
	"strings"

	"verif/sim/core"
	"verif/sim/dev/rng"
	"verif/sim/ref"
)

// C19 — a failing randomness source yields an error, never a key or signature.
//
// System: one client calling GenerateKey / SignHashed / SignZa / Sign against the
// simulated RNG device. Oracle: the fault-free twin of the same call on a device
// with identical content and perfect delivery, executed first.

type c19Script struct {
	Call      sm2Call     `json:"call"`
	NilReader bool        `json:"nil_reader,omitempty"`
	Content   rng.Content `json:"content"`
	Program   []rng.Step  `json:"program"`
	Note      string      `json:"note,omitempty"`
}

type c19 struct{}

func init() { core.Register(c19{}) }

func (c19) ID() string { return "C19" }

var c19Ops = []string{"GenerateKey", "SignHashed", "SignZa", "Sign"}
var c19Errs = []string{"EOF", "UnexpectedEOF", "custom"}

// (R, failing draw) pairs for R in 0..3.
var c19RF = func() [][2]int {
	var v [][2]int
	for R := 0; R <= 3; R++ {
		for f := 0; f <= R; f++ {
			v = append(v, [2]int{R, f})
		}
	}
	return v
}()

const c19SysN = 4 * 10 * 33 * 3 * 3

func (c19) Plan(tier string) core.Plan {
	if tier == "thorough" {
		return core.Plan{Systematic: c19SysN, Seeded: 400000}
	}
	return core.Plan{Systematic: c19SysN, Seeded: 24000}
}

func (c19) Meta() core.Meta {
	return core.Meta{
		Level: "fault_enumeration",
		Rule: "systematic: first failure at every (draw index 0..R, byte offset 0..32) for R=0..3 rejected candidates x 3 error kinds x 3 delivery patterns x 4 entry points, enumerated completely; " +
			"seeded: compound delivery programs (short reads, bounded stalls, error with 0..32 bytes, error after success) over candidate streams with rejected prefixes. " +
			"A case is non-trivial if at least one device fault actually fired; distinct = distinct (entry point, rejected-prefix length, fired delivery-step sequence, outcome) tuples",
		Components: map[string]string{"sm2.GenerateKey/SignHashed/SignZa/Sign": "real", "sm3 (ZA, e)": "real", "randomness source": "stub (simulated device)",
			"oracle": "library's own fault-free twin; sm2ref only builds solved-for digests", "arm64 assembly": "not run"},
		Assumptions: []string{"a source that has returned an error keeps failing (sticky)", "runs of (0,nil) reads are bounded to 3 (an endless stall makes io.ReadFull itself spin)",
			"an error delivered together with the last byte of the final draw may be either ignored or reported (io.ReadFull semantics)",
			"the private-key output of GenerateKey on error is not judged (statement speaks of public key and signature)"},
		FaultKinds: []string{"short", "stall", "long-stall-read", "via-crypto/rand.Reader", "err-EOF", "err-UnexpectedEOF", "err-custom", "err-EINTR", "err-EAGAIN-path", "err-timeout", "transient-err-*", "stall>=2^20-reads", "err-*-with-some-bytes", "err-*-with-all-bytes", "sticky-err", "nil-reader"},
		ProbeNames: []string{"error_expected", "either_accepted", "success_expected", "rejected_prefix>=2", "solved_rejection"},
		StepUnit:   "reader calls + library calls",
	}
}

func c19Call(op string, r *core.Rand) sm2Call {
	c := sm2Call{Op: op}
	if op == "GenerateKey" {
		return c
	}
	priv := genPriv(r)
	if r.Chance(1, 4) { // the API accepts keys with leading zero bytes stripped
		v := randScalar(r)
		v.Rsh(v, uint(8*r.PickInt(1, 2, 8, 16, 24, 30, 31)))
		if v.Sign() == 0 {
			v.SetInt64(1)
		}
		priv = v.Bytes()
	}
	c.Priv = hx(priv)
	switch op {
	case "SignHashed":
		c.E = hx(r.Bytes(32))
	case "SignZa":
		c.Za = hx(r.Bytes(32))
		c.Msg = hx(r.Bytes(r.Len(200)))
	case "Sign":
		c.ID = hx(r.Bytes(r.Len(64)))
		c.Msg = hx(r.Bytes(r.Len(200)))
		pub := ref.MulG(ref.Int(priv))
		c.PubX, c.PubY = hx(ref.Pad32(pub.X)), hx(ref.Pad32(pub.Y))
	}
	return c
}

// c19Rejected builds R candidates the call must skip.
func c19Rejected(c *sm2Call, R int, r *core.Rand, solved bool) (cands []string, usedSolved bool) {
	for i := 0; i < R; i++ {
		if c.Op == "GenerateKey" {
			switch r.Intn(4) {
			case 0:
				cands = append(cands, hx(ref.Pad32(nMinus1)))
			default:
				cands = append(cands, hx(highCandidate(r)))
			}
			continue
		}
		if solved && i == 0 && c.Op == "SignHashed" {
			k := randScalar(r)
			reason := []string{ref.RejR0, ref.RejRK, ref.RejS0}[r.Intn(3)]
			c.E = hx(solveE(reason, ref.Int(unhx(c.Priv)), k))
			cands = append(cands, hx(ref.Pad32(k)))
			usedSolved = true
			continue
		}
		cands = append(cands, hx(highCandidate(r)))
	}
	return
}

func (c19) Generate(idx int, r *core.Rand, tier string) core.Script {
	if idx < c19SysN {
		// decode the mixed-radix index
		i := idx
		pat := i % 3
		i /= 3
		ek := i % 3
		i /= 3
		off := i % 33
		i /= 33
		rf := c19RF[i%10]
		i /= 10
		op := c19Ops[i%4]
		R, f := rf[0], rf[1]
		// content drawn from a stream that depends only on the case index, not on VERIF_SEED
		cr := core.NewRand(core.Mix(0xC19, "sys", uint64(idx)))
		call := c19Call(op, cr)
		cands, _ := c19Rejected(&call, R, cr, idx%2 == 0)
		s := &c19Script{Call: call, Content: rng.Content{Candidates: cands, TailSeed: cr.Uint64()},
			Note: fmt.Sprintf("sys op=%s R=%d faildraw=%d off=%d err=%s pat=%d", op, R, f, off, c19Errs[ek], pat)}
		// delivery of the draws before the failing one
		for d := 0; d < f; d++ {
			switch pat {
			case 0:
				s.Program = append(s.Program, rng.Step{Kind: "full"})
			case 1:
				s.Program = append(s.Program, rng.Step{Kind: "short", N: 13}, rng.Step{Kind: "full"})
			default:
				s.Program = append(s.Program, rng.Step{Kind: "stall"}, rng.Step{Kind: "short", N: 1}, rng.Step{Kind: "short", N: 30}, rng.Step{Kind: "full"})
			}
		}
		// the failing draw: off bytes arrive, then the error
		switch pat {
		case 0: // bytes and error in one call
			s.Program = append(s.Program, rng.Step{Kind: "err", N: off, Err: c19Errs[ek]})
		case 1: // bytes first, error alone on the next call
			if off > 0 && off < 32 {
				s.Program = append(s.Program, rng.Step{Kind: "short", N: off})
			} else if off == 32 {
				s.Program = append(s.Program, rng.Step{Kind: "full"})
			}
			s.Program = append(s.Program, rng.Step{Kind: "err", N: 0, Err: c19Errs[ek]})
		default: // stall, split delivery, then the error with the last part
			s.Program = append(s.Program, rng.Step{Kind: "stall"})
			if off >= 2 {
				s.Program = append(s.Program, rng.Step{Kind: "short", N: off / 2})
				s.Program = append(s.Program, rng.Step{Kind: "stall"}, rng.Step{Kind: "err", N: off - off/2, Err: c19Errs[ek]})
			} else {
				s.Program = append(s.Program, rng.Step{Kind: "err", N: off, Err: c19Errs[ek]})
			}
		}
		return s
	}
	// seeded compound programs
	w := r.Split("workload")
	f := r.Split("faults")
	op := c19Ops[w.Intn(4)]
	call := c19Call(op, w)
	call.ViaGlobal = w.Chance(1, 6)
	s := &c19Script{Call: call}
	if op == "GenerateKey" && w.Chance(1, 40) {
		s.NilReader = true
		return s
	}
	R := 0
	for R < 8 && w.Chance(2, 5) {
		R++
	}
	if w.Chance(1, 150) { // a source that is stuck for a long time
		R = w.Range(100, 300)
		if w.Chance(1, 4) {
			R = w.Range(1000, 3000)
		}
	}
	cands, _ := c19Rejected(&s.Call, R, w, w.Chance(1, 2))
	if w.Chance(1, 30) { // a degenerate candidate the key/nonce rules treat specially
		cands = append([]string{hx(make([]byte, 32))}, cands...)
	}
	s.Content = rng.Content{Candidates: cands, TailSeed: w.Uint64()}
	// swarm: which fault kinds are enabled in this run
	enShort, enStall, enErr := f.Chance(3, 4), f.Chance(1, 2), f.Chance(4, 5)
	steps := f.Range(1, 4*(R+1)+2)
	if steps > 400 { // long rejected prefixes are about the loop, not about thousands of delivery faults
		steps = f.Range(1, 400)
	}
	for i := 0; i < steps; i++ {
		switch {
		case enErr && f.Chance(1, 6):
			st := rng.Step{Kind: "err", N: f.PickInt(0, 0, 1, 7, 16, 31, 32, f.Intn(33)), Err: c19Errs[f.Intn(3)]}
			if f.Chance(1, 3) { // error values with Temporary()/Timeout() methods, as real devices return them
				st.Err = []string{"EINTR", "EAGAIN-path", "timeout"}[f.Intn(3)]
			}
			st.Transient = f.Chance(1, 3) // the source carries on after the failed read
			s.Program = append(s.Program, st)
		case enShort && f.Chance(1, 3):
			s.Program = append(s.Program, rng.Step{Kind: "short", N: f.PickInt(1, 2, 8, 15, 16, 17, 31, f.Range(1, 31))})
		case enStall && f.Chance(1, 40): // no progress for a long (finite) while
			n := f.PickInt(99, 100, 101, 150, 300, 1000)
			if f.Chance(1, 8) { // a source that makes no progress for a million reads and more
				n = f.PickInt(1<<16+1, 1<<20, 1<<20+1, 1<<21+3)
			}
			s.Program = append(s.Program, rng.Step{Kind: "longstall", N: n})
		case enStall && f.Chance(1, 5):
			s.Program = append(s.Program, rng.Step{Kind: "stall"})
		default:
			s.Program = append(s.Program, rng.Step{Kind: "full"})
		}
	}
	return s
}

func (c19) Decode(raw json.RawMessage) (core.Script, error) {
	var s c19Script
	if err := json.Unmarshal(raw, &s); err != nil {
		return nil, err
	}
	return &s, nil
}

func nonEmpty(outs [][]byte, from int) bool {
	for i := from; i < len(outs); i++ {
		if len(outs[i]) != 0 {
			return true
		}
	}
	return false
}

func (c19) Execute(sc core.Script, keep bool) *core.Result {
	s := sc.(*c19Script)
	res := core.NewResult()
	log := &core.Log{Keep: keep}
	defer func() {
		res.EventHash = log.Hash()
		res.Steps = log.Steps()
		res.LogLines = log.Lines
	}()
	sm2Canon()
	op := s.Call.Op
	viol := func(class, role, param, detail string) {
		res.Violation = &core.Violation{Class: class, Op: op, Role: role, Param: param, Detail: detail}
		log.Add("VIOLATION %s %s %s: %s", class, role, param, detail)
	}
	// which outputs carry the public key / signature
	pubFrom := 0
	if op == "GenerateKey" {
		pubFrom = 1
	}

	if s.NilReader {
		res.Faults["nil-reader"]++
		res.Nontrivial = true
		res.Fingerprint = core.Fp(op, "nil-reader")
		var outs [][]byte
		var err error
		p, txt, _, _ := core.Catch(func() {
			var rd io.Reader
			outs, err = s.Call.run(rd)
		})
		log.Add("nil reader: panic=%v err=%v", p, err != nil)
		if p {
			viol("panic", "reader", "nil", "nil reader: "+txt)
		} else if err == nil {
			viol("no-error", "reader", "nil", "GenerateKey(nil) returned no error")
		} else if nonEmpty(outs, pubFrom) {
			viol("output-with-error", "pubkey", "nil", "GenerateKey(nil) returned a public key with the error")
		}
		return res
	}

	if s.Call.ViaGlobal {
		res.Faults["via-crypto/rand.Reader"]++
	}
	// 1. fault-free twin
	twinDev := rng.New(s.Content, nil, nil)
	var outs0 [][]byte
	var err0 error
	p0, txt0, _, _ := core.Catch(func() { outs0, err0 = s.Call.run(twinDev) })
	if p0 || err0 != nil {
		res.Probes["twin_failed"]++
		log.Add("twin failed: panic=%v %s err=%v (not judged here)", p0, txt0, err0)
		res.Fingerprint = core.Fp(op, "twin-failed")
		return res
	}
	consumed0 := twinDev.Delivered
	R := consumed0/32 - 1
	log.Add("twin ok consumed=%d out=%s", consumed0, core.Hex8(bytes.Join(outs0, nil)))
	if R >= 2 {
		res.Probes["rejected_prefix>=2"]++
	}
	for i := 0; i < R && i < len(s.Content.Candidates); i++ {
		if v := ref.Int(unhx(s.Content.Candidates[i])); v.Sign() > 0 && v.Cmp(ref.SM2N) < 0 && op != "GenerateKey" {
			res.Probes["solved_rejection"]++
		}
	}

	// 2. the same call through the fault program
	dev := rng.New(s.Content, s.Program, log)
	var outs [][]byte
	var err error
	p, txt, _, _ := core.Catch(func() { outs, err = s.Call.run(dev) })
	for k, v := range dev.Fired {
		res.Faults[k] += v
	}
	res.Nontrivial = len(dev.Fired) > 0
	log.Add("faulty: panic=%v err=%v delivered=%d errFired=%v at=%d out=%s", p, err != nil, dev.Delivered, dev.ErrFired, dev.DeliveredAtErr, core.Hex8(bytes.Join(outs, nil)))

	expect := "success"
	switch {
	case !dev.ErrFired:
		expect = "success"
	case dev.DeliveredAtErr < consumed0:
		expect = "error"
	case dev.DeliveredAtErr == consumed0:
		expect = "either"
	default:
		expect = "overread"
	}
	// The device only knows an error fired if the library actually made that call. If
	// the library stopped reading early (fewer bytes than the twin) without an error
	// having fired, expect stays "success" and the comparison below catches it.
	outcome := "success"
	if p {
		outcome = "panic"
	} else if err != nil {
		outcome = "error"
	}
	res.Fingerprint = core.Fp(op, fmt.Sprint("R", R), firedSeq(dev, s.Program), expect, outcome)
	posClass := "draw0"
	if dev.ErrFired {
		draw := dev.DeliveredAtErr / 32
		switch {
		case dev.DeliveredAtErr%32 != 0:
			posClass = "mid-draw"
		case draw == 0:
			posClass = "before-first-draw"
		default:
			posClass = "after-rejected"
		}
	}
	if p {
		viol("panic", "reader", posClass, "panic under faulty reader: "+txt)
		return res
	}
	checkSame := func() {
		if len(outs) != len(outs0) {
			viol("wrong-result", "output", "count", "output count differs")
			return
		}
		for i := range outs {
			if !bytes.Equal(outs[i], outs0[i]) {
				viol("wrong-result", "output", "differs-from-fault-free-twin",
					fmt.Sprintf("output %d = %x, fault-free twin gave %x (delivery faults changed the value: partial or skipped draw)", i, outs[i], outs0[i]))
				return
			}
		}
		if dev.Delivered != consumed0 {
			viol("bytes-consumed", "reader", "differs-from-fault-free-twin", fmt.Sprintf("consumed %d bytes, twin consumed %d", dev.Delivered, consumed0))
		}
	}
	switch expect {
	case "success":
		res.Probes["success_expected"]++
		if err != nil {
			viol("spurious-error", "reader", posClass, fmt.Sprintf("no reader error was delivered but the call failed: %v", err))
			return res
		}
		checkSame()
	case "error":
		res.Probes["error_expected"]++
		if err == nil {
			viol("no-error", "reader", posClass, fmt.Sprintf("reader failed after %d of %d bytes but the call returned success, out=%x", dev.DeliveredAtErr, consumed0, bytes.Join(outs, nil)))
			return res
		}
		if nonEmpty(outs, pubFrom) {
			viol("output-with-error", "output", posClass, fmt.Sprintf("error returned together with key/signature material %x", bytes.Join(outs[pubFrom:], nil)))
		}
	case "either":
		res.Probes["either_accepted"]++
		if err == nil {
			checkSame()
		} else if nonEmpty(outs, pubFrom) {
			viol("output-with-error", "output", posClass, "error returned together with key/signature material")
		}
	case "overread":
		viol("bytes-consumed", "reader", "read-past-twin", fmt.Sprintf("library kept reading: error fired at byte %d, twin needed only %d", dev.DeliveredAtErr, consumed0))
	}
	return res
}

// firedSeq renders the delivery steps that were actually used, run-length compressed.
func firedSeq(d *rng.Device, prog []rng.Step) string {
	n := d.Calls
	if n > len(prog) {
		n = len(prog)
	}
	var b strings.Builder
	last, cnt := "", 0
	flush := func() {
		if cnt > 0 {
			fmt.Fprintf(&b, "%s%d,", last, cnt)
		}
	}
	for i := 0; i < n; i++ {
		k := prog[i].Kind
		if k == "err" {
			k = "err:" + prog[i].Err + ":" + core.LenClass(prog[i].N)
		}
		if k == last && cnt < 3 {
			cnt++
			continue
		}
		if k != last {
			flush()
			last, cnt = k, 1
		}
	}
	flush()
	return b.String()
}

func (c19) Shrinks(sc core.Script) []core.Script {
	s := sc.(*c19Script)
	var out []core.Script
	cp := func() *c19Script {
		raw, _ := json.Marshal(s)
		var c c19Script
		json.Unmarshal(raw, &c)
		c.Note = ""
		return &c
	}
	// drop program steps
	for _, rg := range core.DropRanges(len(s.Program)) {
		c := cp()
		c.Program = append(c.Program[:rg[0]], c.Program[rg[1]:]...)
		out = append(out, c)
	}
	// simplify steps
	for i, st := range s.Program {
		if st.Kind != "full" && st.Kind != "err" {
			c := cp()
			c.Program[i] = rng.Step{Kind: "full"}
			out = append(out, c)
		}
		if st.Kind == "err" && st.N > 0 {
			c := cp()
			c.Program[i].N = 0
			out = append(out, c)
		}
		if st.Kind == "err" && st.Err != "EOF" {
			c := cp()
			c.Program[i].Err = "EOF"
			out = append(out, c)
		}
	}
	// drop candidates
	for _, rg := range core.DropRanges(len(s.Content.Candidates)) {
		c := cp()
		c.Content.Candidates = append(c.Content.Candidates[:rg[0]], c.Content.Candidates[rg[1]:]...)
		out = append(out, c)
	}
	// simpler entry point and arguments
	if s.Call.Op == "Sign" || s.Call.Op == "SignZa" {
		c := cp()
		c.Call = sm2Call{Op: "SignHashed", Priv: s.Call.Priv, E: hx(s.Call.digest())}
		out = append(out, c)
	}
	if s.Call.Priv != "" && s.Call.Priv != hx(ref.Pad32(big.NewInt(1))) {
		c := cp()
		c.Call.Priv = hx(ref.Pad32(big.NewInt(1)))
		if c.Call.Op == "Sign" {
			g := ref.G()
			c.Call.PubX, c.Call.PubY = hx(ref.Pad32(g.X)), hx(ref.Pad32(g.Y))
		}
		out = append(out, c)
	}
	if s.Call.Msg != "" {
		c := cp()
		c.Call.Msg = ""
		out = append(out, c)
	}
	if s.Call.ID != "" {
		c := cp()
		c.Call.ID = ""
		out = append(out, c)
	}
	return out
}

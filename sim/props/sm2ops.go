// Package props holds one workload generator + oracle + shrinker per claimed property.
package props

import (
	"bytes"
	crand "crypto/rand"
	"encoding/hex"
	"hash/adler32"
	"hash/crc32"
	"hash/fnv"
	"io"
	"math/big"

	"github.com/bilibili/smgo/sm2"

	"verif/sim/core"
	"verif/sim/ref"
)

func hx(b []byte) string { return hex.EncodeToString(b) }
func unhx(s string) []byte {
	b, err := hex.DecodeString(s)
	if err != nil {
		panic("bad hex in script: " + s)
	}
	return b
}

// sm2Call is one signing / key generation call with literal arguments.
type sm2Call struct {
	Op   string `json:"op"` // GenerateKey | SignHashed | SignZa | Sign
	Priv string `json:"priv,omitempty"`
	E    string `json:"e,omitempty"`
	ID   string `json:"id,omitempty"`
	Msg  string `json:"msg,omitempty"`
	Za   string `json:"za,omitempty"`
	PubX string `json:"pubx,omitempty"`
	PubY string `json:"puby,omitempty"`
	// ViaGlobal: the simulated device is installed as crypto/rand.Reader and the call is
	// given crypto/rand.Reader itself (what a caller using the conventional source passes):
	// a library that treats that particular reader specially sees the faulty device there too.
	ViaGlobal bool `json:"via_global,omitempty"`
}

// run executes the call against the library with the given reader. outs are the
// byte-slice results in order (GenerateKey: priv,x,y; Sign*: r,s).
func (c *sm2Call) run(rd io.Reader) (outs [][]byte, err error) {
	if c.ViaGlobal && rd != nil {
		saved := crand.Reader
		crand.Reader = rd
		defer func() { crand.Reader = saved }()
		rd = crand.Reader
	}
	switch c.Op {
	case "GenerateKey":
		p, x, y, e := sm2.GenerateKey(rd)
		return [][]byte{p, x, y}, e
	case "SignHashed":
		r, s, e := sm2.SignHashed(rd, unhx(c.Priv), unhx(c.E))
		return [][]byte{r, s}, e
	case "SignZa":
		r, s, e := sm2.SignZa(rd, unhx(c.Priv), unhx(c.Za), unhx(c.Msg))
		return [][]byte{r, s}, e
	case "Sign":
		r, s, e := sm2.Sign(unhx(c.ID), unhx(c.PubX), unhx(c.PubY), rd, unhx(c.Priv), unhx(c.Msg))
		return [][]byte{r, s}, e
	}
	panic("unknown op " + c.Op)
}

// digest returns the e the call signs (for solved-for nonce construction), by the
// reference model.
func (c *sm2Call) digest() []byte {
	switch c.Op {
	case "SignHashed":
		return unhx(c.E)
	case "SignZa":
		e := ref.E(unhx(c.Za), unhx(c.Msg))
		return e[:]
	case "Sign":
		za, _ := ref.ZA(unhx(c.ID), unhx(c.PubX), unhx(c.PubY))
		e := ref.E(za[:], unhx(c.Msg))
		return e[:]
	}
	return nil
}

var (
	nMinus1 = new(big.Int).Sub(ref.SM2N, big.NewInt(1))
	nMinus2 = new(big.Int).Sub(ref.SM2N, big.NewInt(2))
	two256  = new(big.Int).Lsh(big.NewInt(1), 256)
	max256  = new(big.Int).Sub(two256, big.NewInt(1))
)

// randScalar returns a value in [1, n-2]: mostly uniform, sometimes structured (powers
// of two and their neighbours, long runs of equal bits, sparse values, values next to
// n), the shapes on which windowed multiplication, recoding and carry chains go wrong.
func randScalar(r *core.Rand) *big.Int {
	if r.Chance(1, 16) {
		if v := montStructured(r, ref.SM2N); ref.KeyValid(v) {
			return v
		}
	}
	if r.Chance(1, 8) {
		v := new(big.Int)
		switch r.Intn(6) {
		case 0: // 2^i
			v.Lsh(big.NewInt(1), uint(r.Intn(256)))
		case 1: // 2^i - 1
			v.Lsh(big.NewInt(1), uint(1+r.Intn(255)))
			v.Sub(v, big.NewInt(1))
		case 2: // 2^i + 2^j
			v.Lsh(big.NewInt(1), uint(r.Intn(256)))
			v.Add(v, new(big.Int).Lsh(big.NewInt(1), uint(r.Intn(256))))
		case 3: // one repeated byte
			v.SetBytes(bytes.Repeat([]byte{byte(r.PickInt(0x0f, 0xf0, 0x55, 0xaa, 0x77, 0x88, 0xfe, 0x01, r.Intn(256)))}, 32))
		case 4: // n - small
			v.Sub(ref.SM2N, big.NewInt(int64(2+r.Intn(70000))))
		default: // a window of random bits in a sea of zeros
			v.SetBytes(r.Bytes(r.Range(1, 4)))
			v.Lsh(v, uint(r.Intn(224)))
		}
		v.Mod(v, ref.SM2N)
		if ref.KeyValid(v) {
			return v
		}
	}
	for {
		v := ref.Int(r.Bytes(32))
		if ref.KeyValid(v) {
			return v
		}
	}
}

// extremeX1 lists nonces k whose point [k]G has an x coordinate in the top 2^-32 sliver of
// the field, x1 >= 2n - 2^256, so that e + x1 can reach 2n: r = (e + x1) mod n then needs
// n taken off twice, in signing and in verification. Such k cannot be constructed, only
// found by walking about 2^32 multiples of G; these two were found that way (by the
// author of seeded change C02-9) and are verified against the reference model on first use.
var extremeX1 = []string{
	"a984afe9ed39a5b13ba57275e242513abcca3227092c2792addec65636256175",
	"a984afe9ed39a5b13ba57275e242513abcca3227092c2792addec6568ba609ce",
}

var extremeChecked bool

// extremeNonce returns one of the listed nonces (or its negative, which has the same x1)
// together with x1.
func extremeNonce(r *core.Rand) (k, x1 *big.Int) {
	if !extremeChecked {
		bound := new(big.Int).Lsh(ref.SM2N, 1)
		bound.Sub(bound, new(big.Int).Lsh(big.NewInt(1), 256))
		for _, h := range extremeX1 {
			if x := ref.MulG(ref.Int(unhx(h))).X; x.Cmp(bound) <= 0 {
				panic("harness: listed extreme nonce " + h + " does not have x1 > 2n - 2^256 under the reference model")
			}
		}
		extremeChecked = true
	}
	k = ref.Int(unhx(extremeX1[r.Intn(len(extremeX1))]))
	x1 = ref.MulG(k).X
	if r.Chance(1, 2) {
		k = new(big.Int).Sub(ref.SM2N, k)
	}
	return
}

// extremeE returns a 32-byte digest e with e + x1 within a few units of 2n, well above
// it, or at 2^256-1 (the sum is then >= 2n for the listed nonces). mode "r0" gives
// e + x1 = 2n exactly (the candidate must be skipped: r = 0).
func extremeE(r *core.Rand, x1 *big.Int, mode string) []byte {
	twoN := new(big.Int).Lsh(ref.SM2N, 1)
	e := new(big.Int).Sub(twoN, x1)
	max := new(big.Int).Sub(new(big.Int).Lsh(big.NewInt(1), 256), big.NewInt(1))
	if mode != "r0" {
		switch r.Intn(5) {
		case 0:
			e.Add(e, big.NewInt(int64(r.PickInt(-2, -1, 1, 2, 3))))
		case 1:
			e.Set(max)
		case 2: // somewhere between 2n - x1 and 2^256 - 1
			room := new(big.Int).Sub(max, e)
			off := ref.Int(r.Bytes(32))
			e.Add(e, off.Mod(off, room))
		case 3: // just below the point where the second subtraction starts
			below := smallValue(r)
			below.Rsh(below, 40)
			e.Sub(e, below.Add(below, big.NewInt(1)))
		default:
			e.Add(e, new(big.Int).Lsh(big.NewInt(1), uint(r.Intn(200))))
		}
	}
	if e.Sign() < 0 || e.Cmp(max) > 0 {
		e.Set(max)
	}
	return ref.Pad32(e)
}

// residualPoint returns an off-curve pair (x, y) whose curve-equation residual is
// structured: the two sides y^2 and x^3+ax+b, written as 256-bit strings either plainly
// or in Montgomery form (times 2^256 mod p, the representation 64-bit implementations
// compute in), differ only in a chosen window - one bit, one byte, one 64-bit limb, the
// upper or the lower half of every limb. A comparison that looks at part of the
// representation accepts such a pair; for unrelated values that needs a 2^-128 accident.
func residualPoint(r *core.Rand) (x, y *big.Int, kind string, ok bool) {
	p := ref.SM2P
	R := new(big.Int).Lsh(big.NewInt(1), 256)
	Rinv := new(big.Int).ModInverse(R, p)
	mont := r.Chance(2, 3)
	for tries := 0; tries < 60; tries++ {
		x = ref.Int(r.Bytes(32))
		x.Mod(x, p)
		if r.Chance(1, 3) {
			x = ref.MulG(randScalar(r)).X
		}
		rhs := new(big.Int).Mul(x, x)
		rhs.Add(rhs, ref.SM2A)
		rhs.Mul(rhs, x)
		rhs.Add(rhs, ref.SM2B)
		rhs.Mod(rhs, p)
		m := new(big.Int).Set(rhs)
		if mont {
			m.Mul(m, R).Mod(m, p)
		}
		mb := ref.Pad32(m) // big endian: limb j (little-endian limb order) is bytes 32-8(j+1) .. 32-8j
		mask := make([]byte, 32)
		switch r.Intn(7) {
		case 0:
			kind = "bit"
			i := r.Intn(256)
			mask[i/8] = 1 << uint(i%8)
		case 1:
			kind = "byte"
			mask[r.Intn(32)] = byte(1 + r.Intn(255))
		case 2:
			kind = "limb"
			j := r.Intn(4)
			copy(mask[8*j:8*j+8], r.Bytes(8))
		case 3, 4:
			kind = "upper-halves"
			for j := 0; j < 4; j++ {
				copy(mask[8*j:8*j+4], r.Bytes(4))
			}
		case 5:
			kind = "lower-halves"
			for j := 0; j < 4; j++ {
				copy(mask[8*j+4:8*j+8], r.Bytes(4))
			}
		default:
			kind = "all-but-one-limb"
			j := r.Intn(4)
			copy(mask, r.Bytes(32))
			for i := 8 * j; i < 8*j+8; i++ {
				mask[i] = 0
			}
		}
		for i := range mb {
			mb[i] ^= mask[i]
		}
		m2 := ref.Int(mb)
		if m2.Cmp(p) >= 0 || m2.Cmp(m) == 0 {
			continue
		}
		if mont {
			m2.Mul(m2, Rinv).Mod(m2, p)
			kind = "montgomery/" + kind
		} else {
			kind = "plain/" + kind
		}
		y = new(big.Int).ModSqrt(m2, p)
		if y == nil {
			continue
		}
		if r.Chance(1, 2) {
			y.Sub(p, y)
		}
		if ref.OnCurve(x, y) {
			continue
		}
		return x, y, kind, true
	}
	return nil, nil, "", false
}

// fingerprintTwin returns a second valid 32-byte key that differs from a first one but has
// the same value under a common 32-bit non-cryptographic checksum of its bytes (CRC-32
// IEEE/Castagnoli, FNV-1/1a, Adler-32): a cache of per-key data tagged with such a
// checksum instead of the key serves the first key's data to the second. Both are
// found by a birthday search over random keys (about 2^17 of them).
func fingerprintTwin(r *core.Rand) (a, b []byte, kind string) {
	kind = []string{"crc32-ieee", "crc32-castagnoli", "fnv1a-32", "fnv1-32", "adler32"}[r.Intn(5)]
	var sum func([]byte) uint32
	switch kind {
	case "crc32-ieee":
		sum = crc32.ChecksumIEEE
	case "crc32-castagnoli":
		t := crc32.MakeTable(crc32.Castagnoli)
		sum = func(x []byte) uint32 { return crc32.Checksum(x, t) }
	case "fnv1a-32":
		sum = func(x []byte) uint32 { h := fnv.New32a(); h.Write(x); return h.Sum32() }
	case "fnv1-32":
		sum = func(x []byte) uint32 { h := fnv.New32(); h.Write(x); return h.Sum32() }
	default:
		sum = adler32.Checksum
	}
	seen := map[uint32][]byte{}
	for i := 0; i < 1<<22; i++ {
		k := r.Bytes(32)
		k[0] &= 0x7f // well inside [1, n-2]
		if !ref.KeyValid(ref.Int(k)) {
			continue
		}
		h := sum(k)
		if o, ok := seen[h]; ok && !bytes.Equal(o, k) {
			return o, k, kind
		}
		seen[h] = k
	}
	panic("harness: no checksum collision among 2^22 keys")
}

// montStructured returns v in [1, mod) whose Montgomery form v*2^256 mod mod - the
// representation 64-bit implementations compute in - has structured 64-bit limbs (all
// ones, zero, one, top bit, 32-bit patterns, the rest random): the operand class on which
// hand-written multi-limb arithmetic drops a carry. In plain form v looks random.
func montStructured(r *core.Rand, mod *big.Int) *big.Int {
	R := new(big.Int).Lsh(big.NewInt(1), 256)
	Rinv := new(big.Int).ModInverse(R, mod)
	for {
		b := make([]byte, 32)
		for j := 0; j < 4; j++ {
			var w uint64
			switch r.Intn(9) {
			case 0:
				w = ^uint64(0)
			case 1:
				w = ^uint64(0) - uint64(r.Intn(3))
			case 2:
				w = 0
			case 3:
				w = uint64(1 + r.Intn(2))
			case 4:
				w = 1 << 63
			case 5:
				w = 1<<63 - 1
			case 6:
				w = 0xffffffff
			case 7:
				w = 0xffffffff00000000
			default:
				w = r.Uint64()
			}
			for k := 0; k < 8; k++ {
				b[8*(3-j)+k] = byte(w >> (8 * uint(7-k)))
			}
		}
		m := ref.Int(b)
		if m.Cmp(mod) >= 0 {
			continue
		}
		v := m.Mul(m, Rinv)
		v.Mod(v, mod)
		if v.Sign() > 0 {
			return v
		}
	}
}

// genPriv draws a valid private key, biased to the interesting encodings.
func genPriv(r *core.Rand) []byte {
	switch r.Weighted(10, 2, 2, 2, 2, 2) {
	case 5: // d or 1+d structured in the scalar field's Montgomery form
		v := montStructured(r, ref.SM2N)
		if r.Chance(1, 2) {
			v.Sub(v, big.NewInt(1))
		}
		if ref.KeyValid(v) {
			return ref.Pad32(v)
		}
	case 1:
		return ref.Pad32(big.NewInt(int64(1 + r.Intn(3))))
	case 2:
		return ref.Pad32(new(big.Int).Sub(nMinus2, big.NewInt(int64(r.Intn(2)))))
	case 3: // leading zero bytes inside a 32-byte encoding
		b := r.Bytes(32)
		for i := 0; i <= r.Intn(3); i++ {
			b[i] = 0
		}
		if ref.Int(b).Sign() == 0 {
			b[31] = 1
		}
		return b
	case 4: // 0xff.. high bytes below n
		b := r.Bytes(32)
		copy(b, []byte{0xff, 0xff, 0xff, 0xfe})
		if !ref.KeyValid(ref.Int(b)) {
			b[4] = 0
		}
		return b
	}
	return ref.Pad32(randScalar(r))
}

// highCandidate returns a 32-byte value >= n.
func highCandidate(r *core.Rand) []byte {
	switch r.Intn(7) {
	case 4, 5, 6:
		// agrees with n in its first j bytes, is larger in the unit (1, 2, 4 or 8 bytes wide) that
		// follows and arbitrary behind it: comparisons done word by word, signed, or from the
		// wrong end only go wrong for such values
		nb := ref.Pad32(ref.SM2N)
		for try := 0; try < 64; try++ {
			w := r.PickInt(1, 2, 4, 8)
			j := r.Intn(32/w) * w
			b := append([]byte{}, nb...)
			unit := b[j : j+w]
			switch r.Intn(4) {
			case 0:
				for i := range unit {
					unit[i] = 0xff
				}
			case 1:
				unit[0] |= 0x80
			case 2:
				for i := w - 1; i >= 0; i-- { // + 1
					unit[i]++
					if unit[i] != 0 {
						break
					}
				}
			default:
				r.Fill(unit)
			}
			switch tail := b[j+w:]; r.Intn(4) {
			case 0:
				r.Fill(tail)
			case 1:
				for i := range tail {
					tail[i] = 0
				}
			case 2:
				for i := range tail {
					tail[i] = 0xff
				}
			}
			if ref.Int(b).Cmp(ref.SM2N) >= 0 {
				return b
			}
		}
		return nb
	case 0:
		return ref.Pad32(ref.SM2N)
	case 1:
		return ref.Pad32(max256)
	case 2:
		return ref.Pad32(new(big.Int).Add(ref.SM2N, big.NewInt(int64(1+r.Intn(1000)))))
	}
	for {
		b := r.Bytes(32)
		copy(b, []byte{0xff, 0xff, 0xff, 0xff})
		if ref.Int(b).Cmp(ref.SM2N) >= 0 {
			return b
		}
	}
}

// solveE returns e (32 bytes) such that nonce k is rejected for the given reason under
// key d: r=0: e = -x1; r+k=n: e = n-k-x1; s=0: r = k d^-1, e = r - x1.
func solveE(reason string, d, k *big.Int) []byte {
	x1 := ref.MulG(k).X
	e := new(big.Int)
	switch reason {
	case ref.RejR0:
		e.Neg(x1)
	case ref.RejRK:
		e.Sub(ref.SM2N, k)
		e.Sub(e, x1)
	case ref.RejS0:
		inv := new(big.Int).ModInverse(d, ref.SM2N)
		e.Mul(k, inv)
		e.Sub(e, x1)
	default:
		panic("solveE: " + reason)
	}
	e.Mod(e, ref.SM2N)
	return ref.Pad32(e)
}

// smallValue returns a value in [1, 2^(256-8z)) for z leading zero bytes, z biased to
// the classes where fixed-width encodings go wrong (1..3, one machine word, several
// words, almost all).
func smallValue(r *core.Rand) *big.Int {
	if r.Chance(1, 4) {
		// structured instead of short: 2^a - 2^b (a run of one bits, possibly covering whole
		// machine words), 2^a, 2^a + 2^b
		a, b := r.Range(1, 255), r.Range(0, 254)
		if r.Chance(1, 2) { // run aligned to 64-bit limb boundaries
			a = 64 * r.Range(1, 3)
			if r.Chance(1, 2) {
				a += 64
			}
			b = r.PickInt(0, 8, 40, 56, 61, 63, 64, 100, 120)
		}
		if b >= a {
			a, b = b+1, a
		}
		v := new(big.Int).Lsh(big.NewInt(1), uint(a))
		switch r.Intn(4) {
		case 0:
			// 2^a
		case 1:
			v.Add(v, new(big.Int).Lsh(big.NewInt(1), uint(b)))
		default:
			v.Sub(v, new(big.Int).Lsh(big.NewInt(1), uint(b)))
		}
		v.Mod(v, ref.SM2N)
		if v.Sign() > 0 {
			return v
		}
	}
	z := r.PickInt(1, 1, 2, 3, 3, 7, 8, 9, 12, 15, 16, 17, 24, 30, 31)
	v := ref.Int(r.Bytes(32))
	v.Rsh(v, uint(8*z))
	if v.Sign() == 0 {
		v.SetInt64(1)
	}
	return v
}

// sm2Canon runs a fixed sequence of SM2 calls on fresh buffers: one signature with a
// full-width key on a fixed stream, its verification, one key generation and one curve
// check. Executed at the start of every run of the SM2 checks, it puts whatever the
// library may remember across calls (a pooled scratch buffer, a last-key cache) into the
// same state each time, so that a run depends only on its script and replays exactly,
// and so that state left behind by ordinary traffic is always present.
func sm2Canon() {
	core.Catch(func() {
		d := unhx("3945208f7b2144b13f36e38ac6d39f95889393692860b51a42fb81ef4df7c5b8")
		k := unhx("59276e27d506861a16680f3ad9c02dccef3cc1fa3cdbe4ce6d54b80deac1bc21")
		e := unhx("f0b43e94ba45accaace692ed534382eb17e6ab5a19ce7b31f4486fdfc0d28640")
		r, s, _ := sm2.SignHashed(bytes.NewReader(k), d, e)
		px := unhx("09f9df311e5421a150dd7d161e4bc5c672179fad1833fc076bb08ff356f35020")
		py := unhx("ccea490ce26775a52dc6ea718cc1aa600aed05fbf35e084a6632f6072da9ad13")
		sm2.VerifyHashed(px, py, e, r, s)
		sm2.CheckOnCurve(px, py)
		sm2.GenerateKey(bytes.NewReader(k))
	})
}

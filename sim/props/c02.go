package props

import (
	"bytes"
	"encoding/json"
	"fmt"
	"math/big"
	"strings"

	"verif/sim/core"
	"verif/sim/dev/rng"
	"verif/sim/ref"
)

// C02 — signatures are exactly the GM/T 0003.2 values for (d, e, k).
//
// Seam S1: the property is stated over a randomness stream, the unit of draw, the skip
// rules of the retry loop and the bytes consumed, all observed at the reader. The
// reference signer runs over the same simulated device content and predicts value,
// refusal and bytes consumed.

type c02Script struct {
	Priv    string      `json:"priv"`
	E       string      `json:"e"`
	Content rng.Content `json:"content"`
	Program []rng.Step  `json:"program,omitempty"` // short reads / stalls only: must not change the value
	// FinalEOF: every draw is one full read and the read that completes the accepted
	// candidate also returns io.EOF (a legal io.Reader): the value must be produced all the same
	FinalEOF  bool   `json:"final_eof,omitempty"`
	ViaGlobal bool   `json:"via_global,omitempty"`
	Note      string `json:"note,omitempty"`
	// Before: keys (hex) the same process signed with immediately before the call under
	// test - a signer that serves several keys. Their signatures are not judged here.
	Before []string `json:"before,omitempty"`
}

type c02 struct{}

func init() { core.Register(c02{}) }

func (c02) ID() string { return "C02" }

func (c02) Plan(tier string) core.Plan {
	if tier == "thorough" {
		return core.Plan{Systematic: len(c02Sys) + 2, Seeded: 300000} // + two floods of 2^24 unusable candidates
	}
	return core.Plan{Systematic: len(c02Sys), Seeded: 24000}
}

func (c02) Meta() core.Meta {
	return core.Meta{
		Level: "exploration",
		Rule: "one run in four signs with one or two other keys first (unrelated, sharing a prefix, a suffix or all but one bit with the key under test, or colliding with it under a 32-bit checksum); systematic: the key-range table (0 in several encodings, 1, n-2, n-1, n, 2^256-1) and each single rejection rule first in the stream; thorough tier only: two streams that begin with 2^24 unusable candidates (all 0xff, all zero); seeded: (d, e, nonce stream) with streams crafted so the first candidates hit the rejection rules (k>=n, k=0, solved r=0, r+k=n, s=0) in random order and multiplicity, digests solved so r or s has 1-3 leading zero bytes, short reads/stalls mixed in at low rate. " +
			"non-trivial = at least one candidate rejected, a refused key, a short r/s, or a delivery fault fired; distinct = distinct (key class, rejection-reason sequence, r/s length classes, delivery faults fired, outcome)",
		Components: map[string]string{"sm2.SignHashed": "real", "randomness source": "stub (simulated device)", "oracle": "sm2ref.Sign (GM/T 0003.2 over math/big affine arithmetic; anchored on the GM/T 0003.5 example, cross-checked with crypto/elliptic generic code)"},
		Assumptions: []string{"sm2ref is correct (anchors in ref.SelfTest)", "private keys longer than 32 bytes are outside the statement (both refuse)",
			"a key whose value is outside [1,n-2] must be refused whatever its encoded length (the statement speaks of the key's value)"},
		FaultKinds: []string{"short", "stall", "final-read-carries-EOF", "cand:k>=n", "cand:k=0", "cand:r=0", "cand:r+k=n", "cand:s=0", "key:refused", "history:other-key-signed-before"},
		ProbeNames: []string{"rej:k>=n", "rej:k=0", "rej:r=0", "rej:r+k=n", "rej:s=0", "retries>=2", "short-r", "short-s", "key-refused", "key-short-encoding"},
		StepUnit:   "reader calls + sign calls",
	}
}

// key table for the systematic part
type c02Case struct {
	note string
	priv func() []byte
	cand func(d *big.Int, r *core.Rand) (cands []string, e []byte)
}

func padTo(v *big.Int, n int) []byte {
	b := v.Bytes()
	out := make([]byte, n)
	copy(out[n-len(b):], b)
	return out
}

var c02Sys = func() []c02Case {
	var cs []c02Case
	keys := []struct {
		n string
		f func() []byte
	}{
		{"d=0/32B", func() []byte { return make([]byte, 32) }},
		{"d=0/empty", func() []byte { return []byte{} }},
		{"d=0/1B", func() []byte { return []byte{0} }},
		{"d=0/31B", func() []byte { return make([]byte, 31) }},
		{"d=1", func() []byte { return ref.Pad32(big.NewInt(1)) }},
		{"d=1/1B", func() []byte { return []byte{1} }},
		{"d=2", func() []byte { return ref.Pad32(big.NewInt(2)) }},
		{"d=n-2", func() []byte { return ref.Pad32(nMinus2) }},
		{"d=n-1", func() []byte { return ref.Pad32(nMinus1) }},
		{"d=n", func() []byte { return ref.Pad32(ref.SM2N) }},
		{"d=n+1", func() []byte { return ref.Pad32(new(big.Int).Add(ref.SM2N, big.NewInt(1))) }},
		{"d=2^256-1", func() []byte { return ref.Pad32(max256) }},
		{"d=2^248-1/31B", func() []byte { return bytes.Repeat([]byte{0xff}, 31) }},
	}
	for _, k := range keys {
		k := k
		cs = append(cs, c02Case{note: "key " + k.n, priv: k.f})
	}
	// each rejection rule alone, first in the stream
	for _, reason := range []string{ref.RejKHigh, ref.RejKZero, ref.RejR0, ref.RejRK, ref.RejS0} {
		reason := reason
		for rep := 0; rep < 3; rep++ {
			cs = append(cs, c02Case{note: "first candidate hits " + reason, cand: func(d *big.Int, r *core.Rand) ([]string, []byte) {
				switch reason {
				case ref.RejKHigh:
					return []string{hx(highCandidate(r))}, nil
				case ref.RejKZero:
					return []string{hx(make([]byte, 32))}, nil
				}
				k := randScalar(r)
				return []string{hx(ref.Pad32(k))}, solveE(reason, d, k)
			}})
		}
	}
	return cs
}()

func (c02) Generate(idx int, r *core.Rand, tier string) core.Script {
	if idx < len(c02Sys) {
		c := c02Sys[idx]
		cr := core.NewRand(core.Mix(0xC02, "sys", uint64(idx)))
		s := &c02Script{Note: "sys: " + c.note, E: hx(cr.Bytes(32))}
		priv := genPriv(cr)
		if c.priv != nil {
			priv = c.priv()
		}
		s.Priv = hx(priv)
		if c.cand != nil {
			cands, e := c.cand(ref.Int(priv), cr)
			s.Content.Candidates = cands
			if e != nil {
				s.E = hx(e)
			}
		}
		s.Content.TailSeed = cr.Uint64()
		return s
	}
	if tier == "thorough" && idx < len(c02Sys)+2 {
		// a source stuck on unusable output for half a gigabyte (all 0xff, all zero) before the
		// first usable candidate: the call must simply carry on
		cr := core.NewRand(core.Mix(0xC02, "flood", uint64(idx)))
		s := &c02Script{Note: "sys: 2^24 unusable candidates first", E: hx(cr.Bytes(32)), Priv: hx(genPriv(cr))}
		s.Content = rng.Content{Flood: 1 << 24, FloodZero: idx == len(c02Sys)+1, Candidates: []string{hx(ref.Pad32(randScalar(cr)))}, TailSeed: cr.Uint64()}
		return s
	}
	w := r.Split("workload")
	f := r.Split("faults")
	s := &c02Script{}
	var priv []byte
	switch w.Weighted(20, 2, 2) {
	case 0:
		priv = genPriv(w)
	case 1: // refused keys
		switch w.Intn(6) {
		case 0:
			priv = make([]byte, w.PickInt(32, 32, 0, 1, 31))
		case 1:
			priv = ref.Pad32(nMinus1)
		case 2:
			priv = ref.Pad32(ref.SM2N)
		case 3:
			priv = ref.Pad32(max256)
		default:
			priv = highCandidate(w)
		}
	default: // short encodings of valid keys
		v := randScalar(w)
		v.Rsh(v, uint(8*w.Range(1, 31)))
		if v.Sign() == 0 {
			v.SetInt64(1)
		}
		priv = v.Bytes()
	}
	s.Priv = hx(priv)
	d := ref.Int(priv)
	e := w.Bytes(32)
	if hs := r.Split("history"); len(priv) == 32 && ref.KeyValid(d) && hs.Chance(1, 4) {
		// the process signed with other keys just before: unrelated ones, keys that share a
		// prefix, a suffix or all but one bit with this one, and (rarely: a birthday search)
		// a key with the same 32-bit checksum
		for i := hs.Range(1, 2); i > 0; i-- {
			o := genPriv(hs)
			switch hs.Intn(8) {
			case 0:
				copy(o[:16], priv[:16])
			case 1:
				copy(o[16:], priv[16:])
			case 2:
				o = append([]byte{}, priv...)
				o[hs.Intn(32)] ^= 1 << uint(hs.Intn(8))
			case 3:
				if hs.Chance(1, 3) {
					a, b, _ := fingerprintTwin(hs)
					o, priv = a, b
					s.Priv, d = hx(priv), ref.Int(priv)
				}
			}
			if ref.KeyValid(ref.Int(o)) && len(o) == 32 {
				s.Before = append(s.Before, hx(o))
			}
		}
	}
	// stream: rejected prefix in random order and multiplicity
	nrej := 0
	for nrej < 6 && w.Chance(1, 2) {
		nrej++
	}
	if w.Chance(1, 150) { // a source that is stuck for a long time before it recovers
		nrej = w.Range(100, 300)
		if w.Chance(1, 4) {
			nrej = w.Range(1000, 5000)
		}
	}
	s.ViaGlobal = w.Chance(1, 8)
	solvedAt, solvedReason := -1, ""
	if nrej > 0 && ref.KeyValid(d) && w.Chance(2, 3) {
		solvedAt = w.Intn(nrej)
		solvedReason = []string{ref.RejR0, ref.RejRK, ref.RejS0}[w.Intn(3)]
	}
	for i := 0; i < nrej; i++ {
		switch {
		case i == solvedAt:
			k := randScalar(w)
			e = solveE(solvedReason, d, k)
			if solvedReason == ref.RejR0 && w.Chance(1, 6) { // e + x1 = 2n instead of n
				var x1 *big.Int
				k, x1 = extremeNonce(w)
				e = extremeE(w, x1, "r0")
			}
			s.Content.Candidates = append(s.Content.Candidates, hx(ref.Pad32(k)))
		case w.Chance(1, 3):
			s.Content.Candidates = append(s.Content.Candidates, hx(make([]byte, 32)))
		default:
			s.Content.Candidates = append(s.Content.Candidates, hx(highCandidate(w)))
		}
	}
	// near misses of the r+k=n rule: r+k = n + delta for a structured delta must be accepted
	if solvedAt < 0 && ref.KeyValid(d) && w.Chance(1, 8) {
		k1 := randScalar(w)
		delta := new(big.Int).Lsh(big.NewInt(1), uint(w.PickInt(0, 1, 8, 31, 32, 33, 47, 63, 64, 65, 96, 100, 127, 128, 160, 192, 224, 240)))
		if w.Chance(1, 2) {
			delta.Neg(delta)
		}
		// r = n + delta - k1  (as integers), e = r - x1
		rr := new(big.Int).Add(ref.SM2N, delta)
		rr.Sub(rr, k1)
		if rr.Sign() > 0 && rr.Cmp(ref.SM2N) < 0 {
			ev := new(big.Int).Sub(rr, ref.MulG(k1).X)
			ev.Mod(ev, ref.SM2N)
			s.Content.Candidates = append(s.Content.Candidates, hx(ref.Pad32(k1)))
			s.E = hx(ref.Pad32(ev))
			s.Content.TailSeed = w.Uint64()
			s.Note = "near-miss r+k=n+delta"
			return s
		}
	}
	// the accepted nonce; optionally solve e for a short r or s (only when no other
	// candidate already fixed e)
	k := randScalar(w)
	switch w.Intn(6) {
	case 0:
		k = big.NewInt(int64(1 + w.Intn(5)))
	case 1:
		k = new(big.Int).Sub(nMinus1, big.NewInt(int64(w.Intn(3))))
	}
	extreme := solvedAt < 0 && ref.KeyValid(d) && w.Chance(1, 24)
	if extreme { // e + x1 around and above 2n: the reduction of r needs two subtractions
		var x1 *big.Int
		k, x1 = extremeNonce(w)
		e = extremeE(w, x1, "")
		s.Note = "extreme x1"
	}
	s.Content.Candidates = append(s.Content.Candidates, hx(ref.Pad32(k)))
	if !extreme && solvedAt < 0 && ref.KeyValid(d) && w.Chance(1, 2) {
		x1 := ref.MulG(k).X
		small := smallValue(w)
		ev := new(big.Int)
		if w.Chance(1, 2) { // r := small
			ev.Sub(small, x1)
		} else { // s := small  =>  r = (k - s(1+d)) d^-1
			t := new(big.Int).Add(d, big.NewInt(1))
			t.Mul(t, small)
			t.Sub(k, t)
			t.Mul(t, new(big.Int).ModInverse(d, ref.SM2N))
			ev.Sub(t, x1)
		}
		ev.Mod(ev, ref.SM2N)
		e = ref.Pad32(ev)
	}
	s.E = hx(e)
	s.Content.TailSeed = w.Uint64()
	if f.Chance(1, 10) {
		s.FinalEOF = true
		return s
	}
	if f.Chance(1, 4) {
		for i := f.Range(1, 6); i > 0; i-- {
			switch f.Intn(3) {
			case 0:
				s.Program = append(s.Program, rng.Step{Kind: "short", N: f.Range(1, 31)})
			case 1:
				s.Program = append(s.Program, rng.Step{Kind: "stall"})
			default:
				s.Program = append(s.Program, rng.Step{Kind: "full"})
			}
		}
	}
	return s
}

func (c02) Decode(raw json.RawMessage) (core.Script, error) {
	var s c02Script
	if err := json.Unmarshal(raw, &s); err != nil {
		return nil, err
	}
	for _, st := range s.Program {
		if st.Kind == "err" {
			return nil, fmt.Errorf("C02 scripts carry no reader errors (that is C19)")
		}
	}
	if s.FinalEOF {
		s.Program = nil
	}
	return &s, nil
}

func keyClass(priv []byte) string {
	d := ref.Int(priv)
	l := "32B"
	if len(priv) < 32 {
		l = "short-enc"
	} else if len(priv) > 32 {
		l = "long-enc"
	}
	switch {
	case d.Sign() == 0:
		return "d=0/" + l
	case d.Cmp(nMinus1) == 0:
		return "d=n-1/" + l
	case d.Cmp(nMinus1) > 0:
		return "d>=n/" + l
	}
	return "valid/" + l
}

func leadZeros(b []byte) int {
	n := 0
	for n < len(b) && b[n] == 0 {
		n++
	}
	if n > 3 {
		n = 3
	}
	return n
}

func (c02) Execute(sc core.Script, keep bool) *core.Result {
	s := sc.(*c02Script)
	res := core.NewResult()
	log := &core.Log{Keep: keep}
	defer func() {
		res.EventHash = log.Hash()
		res.Steps = log.Steps()
		res.LogLines = log.Lines
	}()
	sm2Canon()
	priv, e := unhx(s.Priv), unhx(s.E)
	for i, bk := range s.Before {
		call := sm2Call{Op: "SignHashed", Priv: bk, E: s.E}
		core.Catch(func() { call.run(rng.New(rng.Content{TailSeed: uint64(i) + 77}, nil, nil)) })
		res.Faults["history:other-key-signed-before"]++
	}
	viol := func(class, role, param, detail string) {
		res.Violation = &core.Violation{Class: class, Op: "SignHashed", Role: role, Param: param, Detail: detail}
		log.Add("VIOLATION %s %s %s: %s", class, role, param, detail)
	}
	// reference first, on a perfect device with the same content
	rd := rng.New(s.Content, nil, nil)
	r0, s0, consumed0, rejects, err0 := ref.Sign(rd, priv, e)
	kc := keyClass(priv)
	log.Add("ref: key=%s err=%v consumed=%d rejects=%v sig=%s", kc, err0 != nil, consumed0, rejects, core.Hex8(append(append([]byte{}, r0...), s0...)))
	for _, rj := range rejects {
		res.Probes["rej:"+rj]++
		res.Faults["cand:"+rj]++
	}
	if len(rejects) >= 2 {
		res.Probes["retries>=2"]++
	}
	if err0 != nil {
		res.Probes["key-refused"]++
		res.Faults["key:refused"]++
	}
	if len(priv) < 32 {
		res.Probes["key-short-encoding"]++
	}
	if err0 == nil && leadZeros(r0) > 0 {
		res.Probes["short-r"]++
	}
	if err0 == nil && leadZeros(s0) > 0 {
		res.Probes["short-s"]++
	}

	prog := s.Program
	if s.FinalEOF && err0 == nil {
		// reads 0..len(rejects)-1 are full; the read that completes the accepted candidate
		// delivers its 32 bytes together with io.EOF
		prog = nil
		for range rejects {
			prog = append(prog, rng.Step{Kind: "full"})
		}
		prog = append(prog, rng.Step{Kind: "err", N: 32, Err: "EOF"})
		res.Faults["final-read-carries-EOF"]++
	}
	dev := rng.New(s.Content, prog, log)
	var r1, s1 []byte
	var err1 error
	p, txt, _, _ := core.Catch(func() {
		c := sm2Call{Op: "SignHashed", Priv: s.Priv, E: s.E, ViaGlobal: s.ViaGlobal}
		outs, e1 := c.run(dev)
		r1, s1, err1 = outs[0], outs[1], e1
	})
	for k, v := range dev.Fired {
		res.Faults[k] += v
	}
	log.Add("lib: panic=%v err=%v consumed=%d sig=%s", p, err1 != nil, dev.Delivered, core.Hex8(append(append([]byte{}, r1...), s1...)))
	zr, zs := 0, 0
	if err0 == nil {
		zr, zs = leadZeros(r0), leadZeros(s0)
	}
	res.Fingerprint = core.Fp(kc, strings.Join(rejects, ","), fmt.Sprint(zr, zs), core.FaultSet(dev.Fired), fmt.Sprint(err0 != nil))
	res.Nontrivial = len(rejects) > 0 || err0 != nil || zr+zs > 0 || len(dev.Fired) > 0
	firstRej := "none"
	if len(rejects) > 0 {
		firstRej = rejects[0]
	}
	if p {
		viol("panic", "signer", kc+"/rej="+firstRej, "SignHashed panicked: "+txt)
		return res
	}
	if err0 != nil { // key must be refused with an error and no signature
		if err1 == nil {
			viol("accepted-invalid-key", "private-key", kc, fmt.Sprintf("key %x (value outside [1,n-2]) was accepted and produced signature %x %x", priv, r1, s1))
		} else if len(r1) != 0 || len(s1) != 0 {
			viol("output-with-error", "private-key", kc, "refused key but returned signature bytes")
		} else if dev.Delivered != 0 {
			// not a violation of the statement; recorded as observation
			res.Unclaimed = append(res.Unclaimed, "refused key consumed randomness")
		}
		return res
	}
	if err1 != nil {
		viol("rejected-valid-key", "private-key", kc, fmt.Sprintf("valid key %x refused: %v", priv, err1))
		return res
	}
	if len(r1) != 32 || len(s1) != 32 {
		viol("wrong-result", "signature", "length", fmt.Sprintf("r,s lengths %d,%d", len(r1), len(s1)))
		return res
	}
	if !bytes.Equal(r1, r0) || !bytes.Equal(s1, s0) {
		// diagnose which rule was mishandled: the candidate the library accepted
		libIdx := dev.Delivered/32 - 1
		param := ""
		switch {
		case libIdx >= 0 && libIdx < len(rejects):
			param = "missed-rule:" + rejects[libIdx]
		case libIdx == len(rejects):
			param = fmt.Sprintf("same-nonce-different-value/zr=%d/zs=%d/%s", zr, zs, kc)
		default:
			param = "over-rejected/first=" + firstRej
		}
		viol("wrong-result", "signature", param, fmt.Sprintf("(r,s) = (%x,%x); GM/T 0003.2 for the first acceptable nonce gives (%x,%x); reference rejected %v", r1, s1, r0, s0, rejects))
		return res
	}
	if dev.Delivered != consumed0 {
		viol("bytes-consumed", "reader", "rej="+firstRej, fmt.Sprintf("consumed %d bytes, reference consumed %d (rejects %v)", dev.Delivered, consumed0, rejects))
	}
	return res
}

func (c02) Shrinks(sc core.Script) []core.Script {
	s := sc.(*c02Script)
	cp := func() *c02Script {
		raw, _ := json.Marshal(s)
		var c c02Script
		json.Unmarshal(raw, &c)
		c.Note = ""
		return &c
	}
	var out []core.Script
	if len(s.Program) > 0 {
		c := cp()
		c.Program = nil
		out = append(out, c)
	}
	for _, rg := range core.DropRanges(len(s.Content.Candidates)) {
		c := cp()
		c.Content.Candidates = append(c.Content.Candidates[:rg[0]], c.Content.Candidates[rg[1]:]...)
		out = append(out, c)
	}
	one := hx(ref.Pad32(big.NewInt(1)))
	if s.Priv != one {
		c := cp()
		c.Priv = one
		out = append(out, c)
	}
	if z := hx(make([]byte, 32)); s.E != z {
		c := cp()
		c.E = z
		out = append(out, c)
	}
	for i, cand := range s.Content.Candidates {
		if len(s.Content.Candidates) > 16 {
			break
		}
		if cand != one && ref.Int(unhx(cand)).Sign() != 0 && ref.Int(unhx(cand)).Cmp(ref.SM2N) < 0 {
			c := cp()
			c.Content.Candidates[i] = one
			out = append(out, c)
		}
	}
	return out
}

package props

import (
	"bufio"
	"bytes"
	"encoding/binary"
	"fmt"
	"os"
	"path/filepath"
	"runtime/debug"
	"strconv"
	"strings"
	"syscall"

	"verif/sim/core"
	"verif/sim/dev/mem"
)

// Giant messages: one Seal/Open whose ciphertext or additional data is 2^32 bytes or
// more, where every 32-bit length computation in an assembly routine wraps. These are
// single enumerated cases of the thorough tier (8-9 GiB of memory, about a minute each),
// serialised across worker processes by a file lock and skipped - visibly, as a probe -
// on a machine without the memory.
//
//	body   len(ciphertext) = 2^32 + 21 (body 2^32 + 5): the body itself crosses 2^32
//	k3     len(ciphertext) = 2^32 + 3:  len mod 2^32 is shorter than the tag
//	k0     len(ciphertext) = 2^32:      len mod 2^32 is zero
//	aad    len(aad) = 2^32 + 7, 33-byte body
//
// Placement: the sealed message ends flush against an inaccessible page for the first
// Open and starts right after one for the second (in place), so a stray access on either
// side faults; the destinations are guard-placed the same way.
var giantVariants = []string{"body", "k3", "k0", "aad"}

const giantNeedKiB = 14 << 20 // MemAvailable required before a giant case starts

type giantObs struct {
	Kind   string // authentic-rejected | wrong-plaintext | wrong-length | forgery-accepted | panic | fault | canary
	Op     string
	Detail string
}

func memAvailableKiB() int {
	f, err := os.Open("/proc/meminfo")
	if err != nil {
		return 0
	}
	defer f.Close()
	sc := bufio.NewScanner(f)
	for sc.Scan() {
		if strings.HasPrefix(sc.Text(), "MemAvailable:") {
			fs := strings.Fields(sc.Text())
			if len(fs) >= 2 {
				n, _ := strconv.Atoi(fs[1])
				return n
			}
		}
	}
	return 0
}

func giantWord(i int, seed uint64) uint64 { return uint64(i)*0x9e3779b97f4a7c15 ^ seed }

// giantPattern fills b with the bytes off.. of the pattern stream (byte i is byte i&7 of
// word i>>3), so that any window can be regenerated independently.
func giantPattern(b []byte, off int, seed uint64) {
	i := 0
	for ; i < len(b) && (off+i)&7 != 0; i++ {
		b[i] = byte(giantWord((off+i)>>3, seed) >> (8 * uint((off+i)&7)))
	}
	for ; i+8 <= len(b); i += 8 {
		binary.LittleEndian.PutUint64(b[i:], giantWord((off+i)>>3, seed))
	}
	for ; i < len(b); i++ {
		b[i] = byte(giantWord((off+i)>>3, seed) >> (8 * uint((off+i)&7)))
	}
}

// giantMismatch returns the first offset where b differs from the pattern, or -1.
func giantMismatch(b []byte, seed uint64) int {
	const chunk = 1 << 20
	tmp := make([]byte, chunk)
	for off := 0; off < len(b); off += chunk {
		n := len(b) - off
		if n > chunk {
			n = chunk
		}
		giantPattern(tmp[:n], off, seed)
		if !bytes.Equal(b[off:off+n], tmp[:n]) {
			for i := 0; i < n; i++ {
				if b[off+i] != tmp[i] {
					return off + i
				}
			}
		}
	}
	return -1
}

// runGiant executes one giant variant and returns what it saw. tamper adds a forged
// delivery (a bit flipped beyond offset 2^32 where the body reaches that far, else in the
// last body byte). It returns skipped=true when the machine cannot hold the case.
func runGiant(variant string, tamper bool, res *core.Result, log *core.Log) (obs []giantObs, skipped bool) {
	if !AsmAvailable() {
		res.Probes["giant-skipped-no-asm"]++
		log.Add("giant %s: skipped, accelerated path not available", variant)
		return nil, true
	}
	lock, err := os.OpenFile(filepath.Join(os.TempDir(), "verif-giant.lock"), os.O_CREATE|os.O_RDWR, 0o666)
	if err == nil {
		defer lock.Close()
		syscall.Flock(int(lock.Fd()), syscall.LOCK_EX)
		defer syscall.Flock(int(lock.Fd()), syscall.LOCK_UN)
	}
	if memAvailableKiB() < giantNeedKiB {
		res.Probes["giant-skipped-lowmem"]++
		log.Add("giant %s: skipped, not enough memory", variant)
		return nil, true
	}
	res.Probes["giant-"+variant]++
	res.Faults["guard:tail"]++
	res.Faults["guard:head"]++
	const tag = 16
	body, aadLen := 0, 5
	switch variant {
	case "body":
		body = 1<<32 + 5
	case "k3":
		body = 1<<32 + 3 - tag
	case "k0":
		body = 1<<32 - tag
	case "aad":
		body, aadLen = 33, 1<<32+7
	default:
		panic("giant: unknown variant " + variant)
	}
	const seed = 0x6a09e667f3bcc908
	arenas := []*mem.Arena{}
	newArena := func() *mem.Arena { a := mem.New(); arenas = append(arenas, a); return a }
	defer func() {
		for _, a := range arenas {
			a.Release()
		}
		debug.FreeOSMemory()
	}()
	add := func(kind, op, detail string) {
		obs = append(obs, giantObs{kind, op, detail})
		log.Add("giant %s: %s at %s: %s", variant, kind, op, detail)
	}
	checkMem := func(op string) {
		for _, a := range arenas {
			if ok, name, rel := a.Check(); !ok {
				add("canary", op, fmt.Sprintf("byte at offset %d relative to %s was modified", rel, name))
			}
		}
	}
	guarded := func(op string, f func()) bool {
		old := debug.SetPanicOnFault(true)
		defer debug.SetPanicOnFault(old)
		p, txt, addr, isFault := core.Catch(f)
		if !p {
			return true
		}
		if isFault {
			for _, a := range arenas {
				if hit, name, side, dist := a.GuardDist(addr); hit {
					add("fault", op, fmt.Sprintf("access %d byte(s) into the inaccessible page %s %s", dist, side, name))
					return false
				}
			}
			add("fault", op, "memory fault outside the arena's guard pages: "+txt)
			return false
		}
		add("panic", op, txt)
		return false
	}
	a, _, _, err := mkAEAD(aeadSpec{Key: "0f1e2d3c4b5a69788796a5b4c3d2e1f0", NonceSize: 12, TagSize: tag}, true)
	if err != nil {
		panic(err)
	}
	nonce := []byte{1, 2, 3, 4, 5, 6, 7, 8, 9, 10, 11, 12}
	aB := newArena()
	aadBuf := aB.Alloc("aad", aadLen, aadLen, "tail", 0)
	giantPattern(aadBuf, 0, seed^0xaad)
	buf := aB.Alloc("message", body, body+tag, "tail", 0)
	giantPattern(buf, 0, seed)
	var ct []byte
	if !guarded("Seal", func() { ct = a.Seal(buf[:0], nonce, buf, aadBuf) }) {
		return
	}
	log.Add("giant %s: sealed %d -> %d bytes", variant, body, len(ct))
	if len(ct) != body+tag {
		add("wrong-length", "Seal", fmt.Sprintf("Seal returned %d bytes for a %d-byte plaintext", len(ct), body))
		return
	}
	checkMem("Seal")
	verify := func(op string, out []byte, err error) {
		switch {
		case err != nil:
			add("authentic-rejected", op, fmt.Sprintf("Open of Seal's own output (%d bytes, aad %d bytes) returned %v", len(ct), aadLen, err))
		case len(out) != body:
			add("wrong-length", op, fmt.Sprintf("Open returned %d bytes, sealed plaintext had %d", len(out), body))
		default:
			if off := giantMismatch(out, seed); off >= 0 {
				add("wrong-plaintext", op, fmt.Sprintf("released plaintext differs from the sealed one from offset %d (of %d)", off, body))
			}
		}
	}
	// first Open: message ends at a guard page, fresh destination ending at a guard page
	aD := newArena()
	dst := aD.Alloc("dst", 0, body, "tail", 0)
	var out []byte
	var oerr error
	if guarded("Open", func() { out, oerr = a.Open(dst, nonce, ct, aadBuf) }) {
		verify("Open", out, oerr)
		checkMem("Open")
	}
	if tamper {
		at := body - 1
		if body > 1<<32+2 {
			at = 1<<32 + 2
		}
		ct[at] ^= 0x10
		res.Faults["wire:flip:body"]++
		if guarded("Open(forged)", func() { out, oerr = a.Open(dst, nonce, ct, aadBuf) }) {
			if oerr == nil {
				add("forgery-accepted", "Open", fmt.Sprintf("bit flipped at body offset %d of %d: Open returned no error", at, body))
			}
			checkMem("Open(forged)")
		}
		ct[at] ^= 0x10
	}
	out = nil
	arenas = arenas[:1]
	aD.Release()
	// second Open: message starts right after a guard page, decrypted in place
	aH := newArena()
	head := aH.Alloc("message@head", body+tag, body+tag, "head", 0)
	copy(head, ct)
	aadHead := aadBuf
	if variant == "aad" {
		// the aad is the giant argument here: give it the head placement too
		aadHead = aH.Alloc("aad@head", aadLen, aadLen, "head", 0)
		copy(aadHead, aadBuf)
	}
	if guarded("Open(in place)", func() { out, oerr = a.Open(head[:0], nonce, head, aadHead) }) {
		verify("Open(in place)", out, oerr)
		checkMem("Open(in place)")
	}
	return
}

//go:build verifl2

package props

import (
	"github.com/bilibili/smgo/verifyield"

	"verif/sim/sched"
)

const L2Enabled = true

var curSched *sched.Sched

func init() {
	verifyield.Hook = func(site int) {
		if s := curSched; s != nil {
			s.Yield(site)
		}
	}
}

func setCurrentSched(s *sched.Sched) { curSched = s }

//go:build verifl2

package props

import (
	"runtime"

	"github.com/bilibili/smgo/verifyield"

	"verif/sim/sched"
)

const L2Enabled = true

var curSched *sched.Sched

func init() {
	verifyield.Hook = func(site int) {
		if s := curSched; s != nil {
			s.Yield(site)
		}
	}
	verifyield.HookBlocked = func(site int) {
		if s := curSched; s != nil {
			s.Blocked(site)
			return
		}
		runtime.Gosched()
	}
}

func setCurrentSched(s *sched.Sched) { curSched = s }

package props

import (
	"crypto/cipher"
	"encoding/json"
	"fmt"
	"runtime/debug"
	"sort"
	"strings"
	"unsafe"

	"github.com/bilibili/smgo/sm4"

	"verif/sim/core"
	"verif/sim/dev/mem"
)

// C11 — memory safety: no access outside the slices and objects handed in.
//
// Seam S4: every argument buffer is placed by the simulated allocator: end flush
// against a PROT_NONE page, start flush after one, or interior with canaries. Faults
// (also inside the assembly) become recoverable panics carrying the faulting address.
// Only a fault, a changed canary, or a misuse call that returns normally is a C11
// violation; ordinary panics and wrong results are other properties' business.

type c11Script struct {
	Asm      bool              `json:"asm"`
	Op       string            `json:"op"` // Seal | Open | OpenBad | Encrypt | Decrypt | NewCipher | K:<kernel> | M:<misuse>
	AEAD     aeadSpec          `json:"aead"`
	PtLen    int               `json:"pt_len"`
	AadLen   int               `json:"aad_len"`
	Seed     uint64            `json:"seed"`
	Sides    map[string]string `json:"sides"` // argument -> tail | head | interior
	Align    int               `json:"align,omitempty"`
	DstLen   int               `json:"dst_len,omitempty"`
	Tight    bool              `json:"tight,omitempty"` // cap(dst) == len(dst): the library has to move the prefix into a buffer of its own
	ShortLen int               `json:"short_len,omitempty"` // misuse: length of the too-short argument
	SpareCap int               `json:"spare_cap,omitempty"` // misuse: capacity beyond len of the short argument
	Cold     bool              `json:"cold,omitempty"`      // everything (object construction and the call) runs on an OS thread that never ran library code (seam S7)
	Giant    string            `json:"giant,omitempty"`     // one call with an argument of 2^32 bytes or more (see giant.go)
}

type c11 struct{}

func init()            { core.Register(c11{}) }
func (c11) ID() string { return "C11" }

var c11Kernels = []string{"expandKey", "blockX1", "blockX2", "blockX4", "blockX8", "blockX16", "ghash1", "ghash9", "copy"}

// systematic space
const (
	c11MaxLen   = 1100
	c11SysAEAD  = (c11MaxLen + 1) * 2 * 2 // pt length x {Seal,Open} x {all-tail, all-head}
	c11SysAad   = 301 * 2 * 2             // aad length x {Seal,Open} x side
	c11SysNonce = 300 * 2 * 2             // nonce length 1..300
	c11SysMis   = 16 * 4 * 3 * 2          // short len 0..15 x {Enc src, Enc dst, Dec src, Dec dst} x {tail, interior cap=len, interior cap>=16} x path
	c11SysOpen  = 5 * 16 * 2 * 3          // tag sizes x ct len 0..15 x side x dst prefix {0, 8, 20}
)

func c11SysN() int {
	return c11SysAEAD + c11SysAad + c11SysNonce + c11SysMis + c11SysOpen + len(c11Kernels)*2 + 4
}

// sparse sweep of long messages: 2^k + delta for k = 12..22 (thorough: ..26), the deltas
// chosen around the 16-, 48- and 64-byte steps of the bulk loops, Seal and Open, every
// argument ending at / starting after an inaccessible page
var c11BigDelta = []int{0, 1, 15, 16, 17, 33, 47, 48, 63, 64}

func c11BigKs(tier string) int {
	if tier == "thorough" {
		return 15
	}
	return 11
}

func c11BigN(tier string) int { return c11BigKs(tier) * len(c11BigDelta) * 2 * 2 }

// sweep of dst prefixes without room behind them (cap == len, so Seal/Open re-allocate and
// copy the prefix): every length 1..200, then 2^k + delta for k = 8..16 (thorough: ..24)
var c11PrefDelta = []int{-1, 0, 1, 15, 16, 17, 33, 37, 63, 64}

func c11PrefLens(tier string) []int {
	var l []int
	for n := 1; n <= 200; n++ {
		l = append(l, n)
	}
	top := 16
	if tier == "thorough" {
		top = 24
	}
	for k := 8; k <= top; k++ {
		for _, d := range c11PrefDelta {
			l = append(l, 1<<uint(k)+d)
		}
	}
	return l
}

func c11PrefN(tier string) int { return len(c11PrefLens(tier)) * 2 * 2 }

func (c11) Plan(tier string) core.Plan {
	if tier == "thorough" {
		return core.Plan{Systematic: c11SysN() + c11BigN(tier) + c11PrefN(tier) + len(giantVariants), Seeded: 2000000}
	}
	return core.Plan{Systematic: c11SysN() + c11BigN(tier) + c11PrefN(tier), Seeded: 150000}
}

func (c11) Meta() core.Meta {
	return core.Meta{
		Level: "exploration",
		Rule: "systematic (enumerated completely every run): Seal and Open at every plaintext length 0..1100 with all arguments (nonce, aad, plaintext/ciphertext, dst with exact capacity) simultaneously flush against a PROT_NONE page after, then before; every aad length 0..300; every nonce length 1..300; a sparse sweep of long messages 2^k + {0,1,15,16,17,33,47,48,63,64} bytes for k = 12..22 (thorough tier: ..26); dst prefixes with no room behind them (cap = len, the library moves the prefix) of every length 1..200 and 2^k + {-1,0,1,15,16,17,33,37,63,64} for k = 8..16 (thorough tier: ..24), Seal and Open; every in-package amd64 kernel with every pointer argument guarded on both sides; misuse: Encrypt/Decrypt with src or dst of 0..15 bytes (tail-guarded, interior cap=len, interior cap>=16) on both paths, Open of 0..15-byte ciphertexts for tag sizes 12..16; thorough tier only: Seal and Open of messages with len(ciphertext) = 2^32+21, 2^32+3, 2^32 and of additional data of 2^32+7 bytes, the message ending at a guard page (fresh destination) and starting right after one (in place). " +
			"seeded: random (op, tag size, nonce size, lengths, per-argument side and alignment, dst prefix). non-trivial = at least one argument was guard-placed; distinct = distinct (path, op, length classes, per-argument sides)",
		Components: map[string]string{"sm4 Block/AEAD methods": "real", "amd64 assembly kernels (via verif-tagged wrappers)": "real", "portable Go path": "real", "allocator": "stub (guard-page arena: mmap + mprotect)", "arm64 assembly": "not run",
			"oracle": "hardware page protection + canary bytes; runtime.Error.Addr() attributes the fault to an arena guard page"},
		Assumptions: []string{"a fault is only detected when the stray access reaches the adjacent guard page (accesses that stay inside the allocation's own pages are caught by canaries if they write, not if they read)",
			"ordinary panics and wrong results are not judged here", "a block or ciphertext shorter than required must give a panic or an error even when cap(slice) would allow the access"},
		FaultKinds: []string{"guard:tail", "guard:head", "interior+canary", "misuse:short-block", "misuse:short-ciphertext", "thread:cold"},
		ProbeNames: []string{"tail-1..15", "empty-plaintext", "kernel", "misuse-refused", "len>=256", "dst-prefix-moved"},
		StepUnit:   "library calls",
	}
}

func allSides(side string) map[string]string {
	return map[string]string{"nonce": side, "aad": side, "src": side, "dst": side, "key": side}
}

func (c11) Generate(idx int, r *core.Rand, tier string) core.Script {
	i := idx
	if nb := c11BigN(tier); idx >= c11SysN() && idx < c11SysN()+nb {
		j := idx - c11SysN()
		s := &c11Script{Asm: true, Op: []string{"Seal", "Open"}[j%2], AEAD: aeadSpec{Key: "000102030405060708090a0b0c0d0e0f", NonceSize: 12, TagSize: 16}, Seed: uint64(idx),
			Sides: allSides([]string{"tail", "head"}[(j/2)%2]), AadLen: (idx * 7) % 40}
		j /= 4
		s.PtLen = 1<<uint(12+j/len(c11BigDelta)) + c11BigDelta[j%len(c11BigDelta)]
		return s
	} else if np := c11PrefN(tier); idx >= c11SysN()+nb && idx < c11SysN()+nb+np {
		j := idx - c11SysN() - nb
		s := &c11Script{Asm: true, Op: []string{"Seal", "Open"}[j%2], AEAD: aeadSpec{Key: "000102030405060708090a0b0c0d0e0f", NonceSize: 12, TagSize: 16}, Seed: uint64(idx),
			Sides: allSides([]string{"tail", "head"}[(j/2)%2]), AadLen: (idx * 7) % 40, Tight: true}
		s.DstLen = c11PrefLens(tier)[j/4]
		s.PtLen = []int{5, 0, 16, 33}[(j/4)%4]
		return s
	} else if tier == "thorough" && idx >= c11SysN()+nb+np && idx < c11SysN()+nb+np+len(giantVariants) {
		// thorough tier only: arguments of 2^32 bytes and more (see giant.go)
		return &c11Script{Asm: true, Op: "Giant", Giant: giantVariants[idx-c11SysN()-nb-np], AEAD: aeadSpec{NonceSize: 12, TagSize: 16}}
	}
	sides := []string{"tail", "head"}
	base := func(op string, side string) *c11Script {
		return &c11Script{Asm: true, Op: op, AEAD: aeadSpec{Key: "000102030405060708090a0b0c0d0e0f", NonceSize: 12, TagSize: 16}, Seed: uint64(idx), Sides: allSides(side), AadLen: (idx * 7) % 40}
	}
	if i < c11SysAEAD {
		s := base([]string{"Seal", "Open"}[i%2], sides[(i/2)%2])
		s.PtLen = i / 4
		s.AEAD.TagSize = 12 + (i/4)%5
		return s
	}
	i -= c11SysAEAD
	if i < c11SysAad {
		s := base([]string{"Seal", "Open"}[i%2], sides[(i/2)%2])
		s.AadLen, s.PtLen = i/4, (i/4)%3*17
		return s
	}
	i -= c11SysAad
	if i < c11SysNonce {
		s := base([]string{"Seal", "Open"}[i%2], sides[(i/2)%2])
		s.AEAD.NonceSize, s.PtLen = 1+i/4, 20
		return s
	}
	i -= c11SysNonce
	if i < c11SysMis {
		s := base("M:"+[]string{"Encrypt-src", "Encrypt-dst", "Decrypt-src", "Decrypt-dst"}[i%4], "interior")
		i /= 4
		switch i % 3 {
		case 0:
			s.Sides = allSides("tail")
		case 1:
			s.SpareCap = 0
		default:
			s.SpareCap = 32
		}
		i /= 3
		s.Asm = i%2 == 0
		s.ShortLen = i / 2
		return s
	}
	i -= c11SysMis
	if i < c11SysOpen {
		s := base("M:Open-short", sides[i%2])
		i /= 2
		s.DstLen = []int{0, 8, 20}[i%3]
		i /= 3
		s.ShortLen = i % 16
		s.AEAD.TagSize = 12 + i/16
		if s.ShortLen >= s.AEAD.TagSize {
			s.ShortLen = s.AEAD.TagSize - 1
		}
		return s
	}
	i -= c11SysOpen
	if i < len(c11Kernels)*2 {
		return base("K:"+c11Kernels[i/2], sides[i%2])
	}
	i -= len(c11Kernels) * 2
	if i < 4 {
		s := base([]string{"NewCipher", "Encrypt", "Decrypt", "OpenBad"}[i], "tail")
		s.PtLen = 33
		return s
	}
	// seeded
	w := r.Split("workload")
	m := r.Split("mem")
	s := &c11Script{Asm: w.Chance(4, 5), AEAD: genAEADSpec(w), PtLen: w.Len(c11MaxLen), AadLen: w.PickInt(0, 1, 13, 16, 17, 100, 129, 300), Seed: w.Uint64(), Sides: map[string]string{}}
	switch w.Weighted(8, 8, 2, 2, 2, 1, 3, 3) {
	case 0:
		s.Op = "Seal"
	case 1:
		s.Op = "Open"
	case 2:
		s.Op = "OpenBad"
	case 3:
		s.Op = "Encrypt"
	case 4:
		s.Op = "Decrypt"
	case 5:
		s.Op = "NewCipher"
	case 6:
		s.Op = "K:" + c11Kernels[w.Intn(len(c11Kernels))]
	default:
		s.Op = "M:" + []string{"Encrypt-src", "Encrypt-dst", "Decrypt-src", "Decrypt-dst", "Open-short"}[w.Intn(5)]
		s.ShortLen = w.Intn(16)
		s.SpareCap = w.PickInt(0, 0, 8, 16, 32)
	}
	for _, a := range []string{"nonce", "aad", "src", "dst", "key"} {
		s.Sides[a] = []string{"tail", "tail", "head", "interior"}[m.Intn(4)]
	}
	s.Align = m.Intn(64)
	s.DstLen = m.PickInt(0, 0, 1, 7, 16, 33)
	if pf := r.Split("prefix"); pf.Chance(1, 4) {
		s.Tight = true
		if pf.Chance(1, 2) {
			s.DstLen = pf.PickInt(1, 15, 16, 17, 63, 64, 65, 255, 257, 1000, 2047, 2049, 2085, 4095, 4097, 5000, 8191, 8193, 20000)
		}
	}
	s.Cold = r.Split("thread").Chance(1, 10)
	return s
}

func (c11) Decode(raw json.RawMessage) (core.Script, error) {
	var s c11Script
	if err := json.Unmarshal(raw, &s); err != nil {
		return nil, err
	}
	if s.Sides == nil {
		s.Sides = map[string]string{}
	}
	return &s, nil
}

var c11Arena = mem.New()

func u32ptr(b []byte) *uint32 { return (*uint32)(unsafe.Pointer(&b[0])) }

func (c11) Execute(sc core.Script, keep bool) *core.Result {
	s := sc.(*c11Script)
	res := core.NewResult()
	log := &core.Log{Keep: keep}
	gcmCanon()
	ar := c11Arena
	ar.Reset()
	if s.PtLen > 1<<16 {
		defer ar.Release() // long messages: give the mappings back instead of pooling them
		res.Probes["len>=64KiB"]++
	}
	defer func() {
		res.EventHash = log.Hash()
		res.Steps = log.Steps()
		res.LogLines = log.Lines
	}()
	if s.Giant != "" {
		obs, skipped := runGiant(s.Giant, false, res, log)
		res.Fingerprint, res.Nontrivial = "giant-"+s.Giant, !skipped
		for _, o := range obs {
			if o.Kind == "fault" || o.Kind == "canary" {
				res.Violation = &core.Violation{Class: o.Kind, Op: "asm:" + strings.SplitN(o.Op, "(", 2)[0], Role: "giant", Param: s.Giant + ">=2^32", Detail: o.Op + ": " + o.Detail}
				return res
			}
		}
		return res
	}
	asm := s.Asm && AsmAvailable()
	pathName := "portable"
	if asm {
		pathName = "asm"
	}
	if strings.HasPrefix(s.Op, "K:") && !asm {
		res.Fingerprint = "kernel-skipped-no-asm"
		return res
	}
	side := func(arg string) string {
		if v, ok := s.Sides[arg]; ok && v != "" {
			return v
		}
		return "interior"
	}
	guarded := 0
	alloc := func(arg string, n, c int, fill uint64) []byte {
		sd := side(arg)
		if sd != "interior" {
			guarded++
			res.Faults["guard:"+sd]++
		} else {
			res.Faults["interior+canary"]++
		}
		b := ar.Alloc(arg, n, c, sd, s.Align)
		rr := core.NewRand(s.Seed ^ fill)
		rr.Fill(b)
		return b
	}
	if s.PtLen%16 != 0 {
		res.Probes["tail-1..15"]++
	}
	if s.PtLen == 0 {
		res.Probes["empty-plaintext"]++
	}
	if s.PtLen >= 256 {
		res.Probes["len>=256"]++
	}
	misuse := strings.HasPrefix(s.Op, "M:")
	returnedNormally := false
	var opErr error
	body := func() {
		debug.SetPanicOnFault(true)
		switch {
		case s.Op == "Seal" || s.Op == "Open" || s.Op == "OpenBad" || s.Op == "M:Open-short":
			// objects are built from private heap copies; only the call under test sees arena memory
			a, _, spec, err := mkAEAD(s.AEAD, asm)
			if err != nil {
				panic(err)
			}
			nonceH, ptH, aadH := seededBytes(s.Seed^1, spec.NonceSize, false), seededBytes(s.Seed^2, s.PtLen, false), seededBytes(s.Seed^3, s.AadLen, false)
			nonce := alloc("nonce", spec.NonceSize, spec.NonceSize, 0)
			copy(nonce, nonceH)
			aad := alloc("aad", s.AadLen, s.AadLen, 0)
			copy(aad, aadH)
			switch s.Op {
			case "Seal":
				pt := alloc("src", s.PtLen, s.PtLen, 0)
				copy(pt, ptH)
				dstCap := s.DstLen + s.PtLen + spec.TagSize
				if s.Tight {
					dstCap = s.DstLen
					res.Probes["dst-prefix-moved"]++
				}
				dst := alloc("dst", s.DstLen, dstCap, 0)
				out := a.Seal(dst, nonce, pt, aad)
				log.Add("Seal pt=%d aad=%d nonce=%d tag=%d -> %s", s.PtLen, s.AadLen, spec.NonceSize, spec.TagSize, core.Hex8(out))
			case "Open", "OpenBad":
				ctH := a.Seal(nil, nonceH, ptH, aadH)
				if s.Op == "OpenBad" {
					ctH[len(ctH)-1] ^= 1
				}
				ct := alloc("src", len(ctH), len(ctH), 0)
				copy(ct, ctH)
				dstCap := s.DstLen + s.PtLen
				if s.Tight {
					dstCap = s.DstLen
					res.Probes["dst-prefix-moved"]++
				}
				dst := alloc("dst", s.DstLen, dstCap, 0)
				out, err := a.Open(dst, nonce, ct, aad)
				log.Add("%s ct=%d aad=%d nonce=%d tag=%d -> err=%v %s", s.Op, len(ctH), s.AadLen, spec.NonceSize, spec.TagSize, err != nil, core.Hex8(out))
			case "M:Open-short":
				n := s.ShortLen
				if n >= spec.TagSize {
					n = spec.TagSize - 1
				}
				ct := alloc("src", n, n+s.SpareCap, 0)
				dst := alloc("dst", s.DstLen, s.DstLen+64, 0)
				_, opErr = a.Open(dst, nonce, ct, aad)
				log.Add("Open of %d-byte ciphertext (tag %d) -> err=%v", n, spec.TagSize, opErr != nil)
			}
		case s.Op == "NewCipher":
			key := alloc("key", 16, 16, 0)
			prev := sm4.VerifSetAsm(asm)
			b, err := sm4.NewCipher(key)
			sm4.VerifSetAsm(prev)
			log.Add("NewCipher -> %v %v", b != nil, err)
		case s.Op == "Encrypt" || s.Op == "Decrypt" || misuse:
			_, blk, _, err := mkAEAD(s.AEAD, asm)
			if err != nil {
				panic(err)
			}
			srcLen, dstLen, srcCap, dstCap := 16, 16, 16, 16
			if misuse {
				if strings.HasSuffix(s.Op, "-src") {
					srcLen, srcCap = s.ShortLen, s.ShortLen+s.SpareCap
				} else {
					dstLen, dstCap = s.ShortLen, s.ShortLen+s.SpareCap
				}
			}
			src := alloc("src", srcLen, srcCap, 0)
			dst := alloc("dst", dstLen, dstCap, 0)
			if strings.Contains(s.Op, "Decrypt") {
				blk.Decrypt(dst, src)
			} else {
				blk.Encrypt(dst, src)
			}
			log.Add("%s src=%d/%d dst=%d/%d", s.Op, srcLen, srcCap, dstLen, dstCap)
		case strings.HasPrefix(s.Op, "K:"):
			res.Probes["kernel"]++
			c11Kernel(s.Op[2:], alloc, log)
		}
		returnedNormally = true
	}
	if s.Cold {
		res.Faults["thread:cold"]++
	}
	p, txt, addr, isFault := core.Catch(func() { core.On(s.Cold, body) })
	debug.SetPanicOnFault(false)
	var sideList []string
	for _, k := range []string{"nonce", "aad", "src", "dst", "key"} {
		sideList = append(sideList, k+"="+side(k))
	}
	sort.Strings(sideList)
	res.Fingerprint = core.Fp(pathName, s.Op, core.LenClass(s.PtLen), core.LenClass(s.AadLen), fmt.Sprint(s.AEAD.NonceSize == 12, s.AEAD.TagSize, s.ShortLen, s.Tight, core.LenClass(s.DstLen)), strings.Join(sideList, ","))
	res.Nontrivial = guarded > 0
	lenParam := "pt=" + core.LenClass(s.PtLen)
	if misuse {
		lenParam = fmt.Sprintf("short/cap>=16=%v", s.ShortLen+s.SpareCap >= 16)
	}
	if strings.HasPrefix(s.Op, "K:") || s.Op == "NewCipher" || s.Op == "Encrypt" || s.Op == "Decrypt" {
		lenParam = "-"
	}
	viol := func(class, role, param, detail string) {
		if res.Violation == nil {
			res.Violation = &core.Violation{Class: class, Op: pathName + ":" + s.Op, Role: role, Param: param, Detail: detail}
			log.Add("VIOLATION %s %s %s: %s", class, role, param, detail)
		}
	}
	if p && isFault {
		hit, name, where, dist := ar.GuardDist(addr)
		_ = txt // carries the raw address, which is not reproducible: kept out of the log
		if hit {
			viol("fault", name, where+"/"+lenParam, fmt.Sprintf("%s touched the inaccessible page %s its %q argument, %d byte(s) into the guard page (pt=%d aad=%d nonce=%d tag=%d short=%d)", s.Op, where, name, dist, s.PtLen, s.AadLen, s.AEAD.NonceSize, s.AEAD.TagSize, s.ShortLen))
		} else {
			viol("fault", "outside-arena", lenParam, fmt.Sprintf("%s faulted at an address that is not an arena guard page", s.Op))
		}
	} else if p {
		log.Add("ordinary panic (not judged here): %s", txt)
		if misuse {
			res.Probes["misuse-refused"]++
		}
	}
	if ok, name, rel := ar.Check(); !ok {
		viol("canary", name, lenParam, fmt.Sprintf("%s wrote outside its %q argument at offset %d relative to the argument start", s.Op, name, rel))
	}
	if misuse && returnedNormally {
		if s.Op == "M:Open-short" {
			res.Faults["misuse:short-ciphertext"]++
			if opErr == nil {
				viol("silent-misuse", "src", lenParam, fmt.Sprintf("Open of a %d-byte ciphertext (tag size %d) returned no error", s.ShortLen, s.AEAD.TagSize))
			} else {
				res.Probes["misuse-refused"]++
			}
		} else {
			res.Faults["misuse:short-block"]++
			viol("silent-misuse", s.Op[len(s.Op)-3:], lenParam, fmt.Sprintf("%s with a %d-byte block (cap %d) returned normally: the operation read or wrote past len", s.Op[2:], s.ShortLen, s.ShortLen+s.SpareCap))
		}
	} else if misuse {
		res.Faults["misuse:short-block"]++
	}
	return res
}

func c11Kernel(name string, alloc func(arg string, n, c int, fill uint64) []byte, log *core.Log) {
	rk := alloc("key", 128, 128, 7) // round keys: 32 x uint32
	switch name {
	case "expandKey":
		key := alloc("src", 16, 16, 1)
		enc := alloc("dst", 128, 128, 2)
		dec := alloc("aad", 128, 128, 3)
		sm4.VerifExpandKeyAsm(&key[0], u32ptr(enc), u32ptr(dec))
	case "blockX1", "blockX2", "blockX4", "blockX8", "blockX16":
		n := map[string]int{"blockX1": 1, "blockX2": 2, "blockX4": 4, "blockX8": 8, "blockX16": 16}[name]
		src := alloc("src", 16*n, 16*n, 1)
		dst := alloc("dst", 16*n, 16*n, 2)
		f := map[int]func(*uint32, *byte, *byte){1: sm4.VerifCryptoBlockAsm, 2: sm4.VerifCryptoBlockAsmX2, 4: sm4.VerifCryptoBlockAsmX4, 8: sm4.VerifCryptoBlockAsmX8, 16: sm4.VerifCryptoBlockAsmX16}[n]
		f(u32ptr(rk), &dst[0], &src[0])
	case "ghash1", "ghash9":
		n := 1
		if name == "ghash9" {
			n = 9
		}
		h := alloc("nonce", 16, 16, 1)
		tag := alloc("dst", 16, 16, 2)
		data := alloc("src", 16*n, 16*n, 3)
		sm4.VerifGHashBlocks(&h[0], &tag[0], &data[0], n)
	case "copy":
		for _, n := range []int{1, 2, 3, 4, 7, 8, 9, 15, 16, 31, 33} {
			src := alloc("src", n, n, uint64(n))
			dst := alloc("dst", n, n, uint64(n)+100)
			sm4.VerifCopyAsm(&dst[0], &src[0], n)
		}
	}
	log.Add("kernel %s ran", name)
}

var _ cipher.Block

func (c11) Shrinks(sc core.Script) []core.Script {
	s := sc.(*c11Script)
	if s.Giant != "" {
		return nil // a single enumerated case: nothing to minimise
	}
	cp := func() *c11Script {
		raw, _ := json.Marshal(s)
		var c c11Script
		json.Unmarshal(raw, &c)
		return &c
	}
	var out []core.Script
	for _, k := range []string{"nonce", "aad", "src", "dst", "key"} {
		if v := s.Sides[k]; v == "tail" || v == "head" {
			c := cp()
			c.Sides[k] = "interior"
			out = append(out, c)
		}
	}
	for _, l := range []int{0, 1, 16, 17, s.PtLen / 2, s.PtLen - 16, s.PtLen - 1} {
		if l >= 0 && l < s.PtLen {
			c := cp()
			c.PtLen = l
			out = append(out, c)
		}
	}
	if s.AadLen > 0 {
		c := cp()
		c.AadLen = 0
		out = append(out, c)
	}
	if s.AEAD.NonceSize != 12 || s.AEAD.TagSize != 16 {
		c := cp()
		c.AEAD.NonceSize, c.AEAD.TagSize = 12, 16
		out = append(out, c)
	}
	if s.DstLen > 0 {
		c := cp()
		c.DstLen = 0
		out = append(out, c)
		if s.DstLen > 64 {
			c = cp()
			c.DstLen = s.DstLen / 2
			out = append(out, c)
			c = cp()
			c.DstLen = s.DstLen - 1
			out = append(out, c)
		}
	}
	if s.Tight {
		c := cp()
		c.Tight = false
		out = append(out, c)
	}
	if s.Align > 0 {
		c := cp()
		c.Align = 0
		out = append(out, c)
	}
	return out
}

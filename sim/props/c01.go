package props

import (
	"encoding/json"
	"fmt"
	"math/big"
	"strings"

	"github.com/bilibili/smgo/sm2"

	"verif/sim/core"
	"verif/sim/dev/rng"
	"verif/sim/ref"
)

// C01 — every signature the library produces verifies, without panicking.
//
// Two-party run: a signer node with the simulated RNG device, a verifier node, a
// fault-free wire between them. The end-to-end invariant is the analogue of "an
// acknowledged write is readable": what an honest party produced and the wire delivered
// untouched is accepted. Oracle: Verify* == (true, nil) and neither side panics.

type c01Sig struct {
	Key int    `json:"key,omitempty"` // 0: Priv, i>0: Keys[i-1]; every key is copied into the same buffer before use
	Op  string `json:"op"`            // SignHashed | SignZa | Sign
	E   string `json:"e,omitempty"`
	Za  string `json:"za,omitempty"`
	ID  string `json:"id,omitempty"`
	Msg string `json:"msg,omitempty"`
}

type c01Script struct {
	Deferred bool        `json:"deferred,omitempty"` // sign everything first, verify afterwards (signatures kept as returned, not copied)
	Priv     string      `json:"priv"`
	Keys     []string    `json:"keys,omitempty"` // further keys of the same signer process, passed in the SAME buffer as Priv
	Sigs     []c01Sig    `json:"sigs"`
	Content  rng.Content `json:"content"`
	Program  []rng.Step  `json:"program,omitempty"`
}

type c01 struct{}

func init()            { core.Register(c01{}) }
func (c01) ID() string { return "C01" }

func (c01) Plan(tier string) core.Plan {
	if tier == "thorough" {
		return core.Plan{Systematic: 2, Seeded: 400000} // one signature behind 2^24 unusable candidates, one behind 2^26+5
	}
	return core.Plan{Seeded: 16000}
}

func (c01) Meta() core.Meta {
	return core.Meta{
		Level: "exploration",
		Rule: "thorough tier only: two signatures whose nonce streams begin with 2^24 and 2^26+5 unusable candidates; identities of 0..200 bytes, 1 in 12 of 255..8192 bytes (the longest the signer takes); seeded two-party runs: one key (valid, incl. short encodings and leading-zero keys), 1-6 signatures per run through Sign/SignZa/SignHashed with nonces from the simulated device (occasional rejected candidates, short reads), digests solved so that r, s or t=(r+s) mod n has 1-3 leading zero bytes, each signature delivered unmodified to the matching Verify*. " +
			"non-trivial = a short r/s/t, a short key encoding, a rejected candidate or a delivery fault occurred; distinct = distinct (entry points, key class, per-signature (r,s,t) leading-zero classes, faults fired)",
		Components: map[string]string{"sm2.Sign/SignZa/SignHashed": "real", "sm2.Verify/VerifyZa/VerifyHashed": "real", "randomness source": "stub (simulated device)", "wire": "stub (fault-free in this property)",
			"public key": "derived by sm2ref ([d]G); sm2ref also solves digests for target r/s/t"},
		Assumptions: []string{"public key under which signatures must verify is [d]G computed by the reference model", "whether the signature is the standard's value is C02's question; a disagreement with sm2ref.Verify here is only an unclaimed observation"},
		FaultKinds:  []string{"short", "stall", "cand:rejected", "deferred-verify", "key-buffer-reused"},
		ProbeNames:  []string{"short-t", "short-r", "short-s", "key-short-encoding", "entry:Sign", "entry:SignZa", "entry:SignHashed"},
		StepUnit:    "reader calls + sign/verify calls",
	}
}

func (c01) Generate(idx int, r *core.Rand, tier string) core.Script {
	if tier == "thorough" && idx < 2 {
		cr := core.NewRand(core.Mix(0xC01, "flood", uint64(idx)))
		s := &c01Script{Priv: hx(genPriv(cr)), Sigs: []c01Sig{{Op: "SignHashed", E: hx(cr.Bytes(32))}}}
		s.Content = rng.Content{Flood: []int{1 << 24, 1<<26 + 5}[idx], Candidates: []string{hx(ref.Pad32(randScalar(cr)))}, TailSeed: cr.Uint64()}
		return s
	}
	w := r.Split("workload")
	f := r.Split("faults")
	s := &c01Script{}
	priv := genPriv(w)
	if w.Chance(1, 8) { // short encoding of a valid key
		v := randScalar(w)
		v.Rsh(v, uint(8*w.Range(1, 31)))
		if v.Sign() == 0 {
			v.SetInt64(1)
		}
		priv = v.Bytes()
	}
	s.Priv = hx(priv)
	d := ref.Int(priv)
	s.Deferred = w.Chance(1, 3)
	if w.Chance(1, 3) { // a signer that handles several keys through one key buffer
		for i := w.Range(1, 2); i > 0; i-- {
			k2 := genPriv(w)
			if len(priv) < 32 {
				k2 = k2[32-len(priv):]
				if ref.Int(k2).Sign() == 0 {
					k2[len(k2)-1] = 1
				}
			}
			s.Keys = append(s.Keys, hx(k2))
		}
	}
	nsig := w.Range(1, 6)
	long := w.Chance(1, 300)
	if long { // a long-lived signer / verifier: hundreds of signatures under one key, then another key
		nsig = w.Range(130, 300)
		if len(s.Keys) == 0 {
			k2 := genPriv(w)
			if len(priv) < 32 {
				k2 = k2[32-len(priv):]
				if ref.Int(k2).Sign() == 0 {
					k2[len(k2)-1] = 1
				}
			}
			s.Keys = append(s.Keys, hx(k2))
		}
	}
	for i := 0; i < nsig; i++ {
		for w.Chance(1, 6) {
			s.Content.Candidates = append(s.Content.Candidates, hx(highCandidate(w)))
		}
		k := randScalar(w)
		s.Content.Candidates = append(s.Content.Candidates, hx(ref.Pad32(k)))
		sig := c01Sig{Op: []string{"SignHashed", "SignHashed", "SignZa", "Sign"}[w.Intn(4)]}
		if len(s.Keys) > 0 {
			sig.Key = w.Intn(len(s.Keys) + 1)
		}
		if long { // one key for a long stretch, the other key only at the very end
			sig.Key = 0
			if i >= nsig-3 {
				sig.Key = 1
			}
			if w.Chance(1, 2) {
				sig.Op = "SignHashed"
			}
		}
		if w.Chance(1, 400) { // a long run of unusable candidates before this signature's nonce
			for j := w.Range(100, 300); j > 0; j-- {
				s.Content.Candidates = append(s.Content.Candidates[:len(s.Content.Candidates)-1], hx(highCandidate(w)), s.Content.Candidates[len(s.Content.Candidates)-1])
			}
		}
		d := d
		if sig.Key > 0 {
			d = ref.Int(unhx(s.Keys[sig.Key-1]))
		}
		switch sig.Op {
		case "SignHashed":
			e := w.Bytes(32)
			if ref.KeyValid(d) && w.Chance(1, 40) {
				// e + x1 >= 2n: r needs n taken off twice, by the signer and by the verifier
				kx, x1 := extremeNonce(w)
				e = extremeE(w, x1, "")
				s.Content.Candidates[len(s.Content.Candidates)-1] = hx(ref.Pad32(kx))
			} else if ref.KeyValid(d) && w.Chance(1, 5) {
				// the candidate before the accepted one is rejected by a solved-for rule
				// (r=0, r+k=n, s=0): the retry must start from a clean state
				k1 := randScalar(w)
				e = solveE([]string{ref.RejR0, ref.RejRK, ref.RejS0}[w.Intn(3)], d, k1)
				n := len(s.Content.Candidates)
				s.Content.Candidates = append(s.Content.Candidates[:n-1], hx(ref.Pad32(k1)), s.Content.Candidates[n-1])
			} else if w.Chance(3, 5) { // solve e for a short r, s or t
				x1 := ref.MulG(k).X
				small := smallValue(w)
				rv := new(big.Int)
				d1 := new(big.Int).Add(d, big.NewInt(1))
				switch w.Intn(3) {
				case 0: // r := small
					rv.Set(small)
				case 1: // s := small => r = (k - s(1+d)) d^-1
					rv.Mul(d1, small)
					rv.Sub(k, rv)
					rv.Mul(rv, new(big.Int).ModInverse(d, ref.SM2N))
				default: // t := small => r = t(1+d) - k
					rv.Mul(d1, small)
					rv.Sub(rv, k)
				}
				ev := new(big.Int).Sub(rv, x1)
				ev.Mod(ev, ref.SM2N)
				e = ref.Pad32(ev)
			}
			sig.E = hx(e)
		case "SignZa":
			sig.Za = hx(w.Bytes(32))
			sig.Msg = hx(w.Bytes(w.Len(300)))
		case "Sign":
			idLen := w.PickInt(0, 1, 16, 16, 17, 31, 64, 200)
			if w.Chance(1, 12) { // around the one-byte length boundary and up to the longest identity the signer takes
				idLen = w.PickInt(255, 256, 4096, 8190, 8191, 8192)
			}
			sig.ID = hx(w.Bytes(idLen))
			sig.Msg = hx(w.Bytes(w.Len(300)))
		}
		s.Sigs = append(s.Sigs, sig)
	}
	s.Content.TailSeed = w.Uint64()
	if f.Chance(1, 5) {
		for i := f.Range(1, 6); i > 0; i-- {
			if f.Chance(1, 2) {
				s.Program = append(s.Program, rng.Step{Kind: "short", N: f.Range(1, 31)})
			} else {
				s.Program = append(s.Program, rng.Step{Kind: "stall"})
			}
		}
	}
	return s
}

func (c01) Decode(raw json.RawMessage) (core.Script, error) {
	var s c01Script
	if err := json.Unmarshal(raw, &s); err != nil {
		return nil, err
	}
	for _, st := range s.Program {
		if st.Kind == "err" {
			return nil, fmt.Errorf("C01 scripts carry no reader errors")
		}
	}
	return &s, nil
}

func (c01) Execute(sc core.Script, keep bool) *core.Result {
	s := sc.(*c01Script)
	res := core.NewResult()
	log := &core.Log{Keep: keep}
	defer func() {
		res.EventHash = log.Hash()
		res.Steps = log.Steps()
		res.LogLines = log.Lines
	}()
	priv := unhx(s.Priv)
	d := ref.Int(priv)
	if len(priv) > 32 || !ref.KeyValid(d) {
		log.Add("script key is not valid: outside the property's quantifier")
		res.Fingerprint = "invalid-key"
		return res
	}
	if len(priv) < 32 {
		res.Probes["key-short-encoding"]++
		res.Nontrivial = true
	}
	sm2Canon()
	// all keys of the run and their public keys; the signer passes every key in the SAME
	// buffer (overwritten in place), as a process that loads keys into one slot does
	allKeys := [][]byte{priv}
	for _, k := range s.Keys {
		kb := unhx(k)
		if len(kb) > 32 || !ref.KeyValid(ref.Int(kb)) {
			log.Add("script key is not valid: outside the property's quantifier")
			res.Fingerprint = "invalid-key"
			return res
		}
		allKeys = append(allKeys, kb)
	}
	var pxs, pys [][]byte
	for _, k := range allKeys {
		pub := ref.MulG(ref.Int(k))
		pxs, pys = append(pxs, ref.Pad32(pub.X)), append(pys, ref.Pad32(pub.Y))
	}
	keyBuf := make([]byte, 0, 32)
	px, py := pxs[0], pys[0]
	if len(s.Keys) > 0 {
		res.Faults["key-buffer-reused"]++
		res.Nontrivial = true
	}
	dev := rng.New(s.Content, s.Program, log)
	var classes []string
	type pending struct {
		key    int
		i      int
		sg     c01Sig
		rr, ss []byte
		cl     string
	}
	var queue []pending
	verify := func(i int, sg c01Sig, rr, ss []byte, cl string) bool {
		var ok bool
		var verr error
		px, py := pxs[sg.Key%len(pxs)], pys[sg.Key%len(pys)]
		p, txt, _, _ := core.Catch(func() {
			switch sg.Op {
			case "SignHashed":
				ok, verr = sm2.VerifyHashed(px, py, unhx(sg.E), rr, ss)
			case "SignZa":
				ok, verr = sm2.VerifyZa(px, py, unhx(sg.Za), unhx(sg.Msg), rr, ss)
			case "Sign":
				ok, verr = sm2.Verify(unhx(sg.ID), px, py, unhx(sg.Msg), rr, ss)
			}
		})
		log.Add("verify#%d: panic=%v ok=%v err=%v", i, p, ok, verr != nil)
		when := "immediately"
		if s.Deferred {
			when = "after-later-signing-calls"
		}
		if p {
			res.Violation = &core.Violation{Class: "panic", Op: sg.Op, Role: "verifier", Param: cl, Detail: fmt.Sprintf("verifier panicked on the library's own signature r=%x s=%x: %s", rr, ss, txt)}
			return false
		}
		if !ok || verr != nil {
			res.Violation = &core.Violation{Class: "rejected-own-signature", Op: sg.Op, Role: "verifier", Param: cl + "/" + when, Detail: fmt.Sprintf("library signature r=%x s=%x under %s not accepted (verified %s): ok=%v err=%v", rr, ss, keyClass(priv), when, ok, verr)}
			return false
		}
		if sg.Op == "SignHashed" && !ref.Verify(px, py, unhx(sg.E), rr, ss) {
			res.Unclaimed = append(res.Unclaimed, "library accepts its own signature but sm2ref.Verify rejects it")
		}
		return true
	}
	for i, sg := range s.Sigs {
		res.Probes["entry:"+sg.Op]++
		var rr, ss []byte
		var err error
		before := dev.Delivered
		ki := sg.Key % len(allKeys)
		keyBuf = append(keyBuf[:0], allKeys[ki]...)
		priv := keyBuf
		px, py = pxs[ki], pys[ki]
		p, txt, _, _ := core.Catch(func() {
			switch sg.Op {
			case "SignHashed":
				rr, ss, err = sm2.SignHashed(dev, priv, unhx(sg.E))
			case "SignZa":
				rr, ss, err = sm2.SignZa(dev, priv, unhx(sg.Za), unhx(sg.Msg))
			case "Sign":
				rr, ss, err = sm2.Sign(unhx(sg.ID), px, py, dev, priv, unhx(sg.Msg))
			}
		})
		if (dev.Delivered-before)/32 > 1 {
			res.Faults["cand:rejected"] += (dev.Delivered-before)/32 - 1
		}
		log.Add("sig#%d %s: panic=%v err=%v r=%s s=%s", i, sg.Op, p, err != nil, core.Hex8(rr), core.Hex8(ss))
		vio := func(class, role, param, detail string) *core.Result {
			res.Violation = &core.Violation{Class: class, Op: sg.Op, Role: role, Param: param, Detail: detail}
			log.Add("VIOLATION %s %s %s: %s", class, role, param, detail)
			for k, v := range dev.Fired {
				res.Faults[k] += v
			}
			return res
		}
		kc := keyClass(priv)
		if p {
			return vio("panic", "signer", kc, "signer panicked: "+txt)
		}
		if err != nil {
			return vio("sign-error", "signer", kc, fmt.Sprintf("valid key and healthy stream but signing failed: %v", err))
		}
		t := new(big.Int).Add(ref.Int(rr), ref.Int(ss))
		t.Mod(t, ref.SM2N)
		zr, zs, zt := leadZeros(rr), leadZeros(ss), leadZeros(ref.Pad32(t))
		if zr > 0 {
			res.Probes["short-r"]++
		}
		if zs > 0 {
			res.Probes["short-s"]++
		}
		if zt > 0 {
			res.Probes["short-t"]++
		}
		cl := fmt.Sprintf("r%ds%dt%d", b2i(zr > 0), b2i(zs > 0), b2i(zt > 0))
		classes = append(classes, sg.Op[4:]+":"+cl)
		if zr+zs+zt > 0 {
			res.Nontrivial = true
		}
		// the wire delivers (pub, message, r, s) untouched; the verifier node checks,
		// either right away or after the signer has gone on to sign the other messages
		if s.Deferred {
			queue = append(queue, pending{ki, i, sg, rr, ss, cl})
			continue
		}
		if !verify(i, sg, rr, ss, cl) {
			log.Add("VIOLATION %s", res.Violation.Detail)
			for k, v := range dev.Fired {
				res.Faults[k] += v
			}
			return res
		}
	}
	for _, q := range queue {
		res.Faults["deferred-verify"]++
		if !verify(q.i, q.sg, q.rr, q.ss, q.cl) {
			log.Add("VIOLATION %s", res.Violation.Detail)
			for k, v := range dev.Fired {
				res.Faults[k] += v
			}
			return res
		}
	}
	for k, v := range dev.Fired {
		res.Faults[k] += v
	}
	if len(dev.Fired) > 0 || res.Faults["cand:rejected"] > 0 {
		res.Nontrivial = true
	}
	res.Fingerprint = core.Fp(keyClass(priv), strings.Join(classes, ","), core.FaultSet(res.Faults))
	return res
}

func b2i(b bool) int {
	if b {
		return 1
	}
	return 0
}

func (c01) Shrinks(sc core.Script) []core.Script {
	s := sc.(*c01Script)
	cp := func() *c01Script {
		raw, _ := json.Marshal(s)
		var c c01Script
		json.Unmarshal(raw, &c)
		return &c
	}
	var out []core.Script
	// keep only signature i, with the stream cut to its accepted candidate: cannot know
	// positions without running, so try dropping leading signatures together with
	// leading candidates.
	if len(s.Sigs) > 16 { // long-lived signer: halves first
		for _, rg := range core.DropRanges(len(s.Sigs)) {
			c := cp()
			c.Sigs = append(c.Sigs[:rg[0]], c.Sigs[rg[1]:]...)
			out = append(out, c)
		}
	}
	for i := range s.Sigs {
		if len(s.Sigs) > 16 {
			break
		}
		c := cp()
		c.Sigs = append(c.Sigs[:i], c.Sigs[i+1:]...)
		out = append(out, c)
		if i < len(s.Content.Candidates) {
			c2 := cp()
			c2.Sigs = append(c2.Sigs[:i], c2.Sigs[i+1:]...)
			c2.Content.Candidates = append(c2.Content.Candidates[:i], c2.Content.Candidates[i+1:]...)
			out = append(out, c2)
		}
	}
	for _, rg := range core.DropRanges(len(s.Content.Candidates)) {
		c := cp()
		c.Content.Candidates = append(c.Content.Candidates[:rg[0]], c.Content.Candidates[rg[1]:]...)
		out = append(out, c)
	}
	if len(s.Program) > 0 {
		c := cp()
		c.Program = nil
		out = append(out, c)
	}
	if len(s.Keys) > 0 {
		c := cp()
		c.Keys = nil
		for i := range c.Sigs {
			c.Sigs[i].Key = 0
		}
		out = append(out, c)
	}
	for i, sg := range s.Sigs {
		if sg.Msg != "" && i == 0 && s.Deferred {
			c := cp()
			c.Deferred = false
			out = append(out, c)
		}
		if sg.Msg != "" {
			c := cp()
			c.Sigs[i].Msg = ""
			out = append(out, c)
		}
		if sg.ID != "" {
			c := cp()
			c.Sigs[i].ID = ""
			out = append(out, c)
		}
	}
	return out
}

package ref

import "testing"

func TestAnchors(t *testing.T) {
	if err := SelfTest(); err != nil {
		t.Fatal(err)
	}
}

// Package ref holds small reference models written from the standards, independent of
// the code under test. They are oracles: they must pass their anchors (published
// vectors) before any check is allowed to use them.
package ref

import "math/bits"

// SM3 is GB/T 32905-2016 transcribed literally: pad the whole message, expand all
// 68+64 words per block, constants Tj rotated at run time.
func SM3(msg []byte) [32]byte {
	l := uint64(len(msg)) * 8
	m := make([]byte, 0, len(msg)+72)
	m = append(m, msg...)
	m = append(m, 0x80)
	for len(m)%64 != 56 {
		m = append(m, 0)
	}
	for i := 7; i >= 0; i-- {
		m = append(m, byte(l>>(8*uint(i))))
	}
	v := [8]uint32{0x7380166f, 0x4914b2b9, 0x172442d7, 0xda8a0600, 0xa96f30bc, 0x163138aa, 0xe38dee4d, 0xb0fb0e4e}
	for off := 0; off < len(m); off += 64 {
		v = sm3cf(v, m[off:off+64])
	}
	var out [32]byte
	for i, x := range v {
		out[4*i] = byte(x >> 24)
		out[4*i+1] = byte(x >> 16)
		out[4*i+2] = byte(x >> 8)
		out[4*i+3] = byte(x)
	}
	return out
}

func sm3p0(x uint32) uint32 { return x ^ bits.RotateLeft32(x, 9) ^ bits.RotateLeft32(x, 17) }
func sm3p1(x uint32) uint32 { return x ^ bits.RotateLeft32(x, 15) ^ bits.RotateLeft32(x, 23) }

func sm3cf(v [8]uint32, b []byte) [8]uint32 {
	var w [68]uint32
	var w1 [64]uint32
	for i := 0; i < 16; i++ {
		w[i] = uint32(b[4*i])<<24 | uint32(b[4*i+1])<<16 | uint32(b[4*i+2])<<8 | uint32(b[4*i+3])
	}
	for j := 16; j < 68; j++ {
		w[j] = sm3p1(w[j-16]^w[j-9]^bits.RotateLeft32(w[j-3], 15)) ^ bits.RotateLeft32(w[j-13], 7) ^ w[j-6]
	}
	for j := 0; j < 64; j++ {
		w1[j] = w[j] ^ w[j+4]
	}
	A, B, C, D, E, F, G, H := v[0], v[1], v[2], v[3], v[4], v[5], v[6], v[7]
	for j := 0; j < 64; j++ {
		var t, ff, gg uint32
		if j < 16 {
			t = 0x79cc4519
			ff = A ^ B ^ C
			gg = E ^ F ^ G
		} else {
			t = 0x7a879d8a
			ff = (A & B) | (A & C) | (B & C)
			gg = (E & F) | (^E & G)
		}
		ss1 := bits.RotateLeft32(bits.RotateLeft32(A, 12)+E+bits.RotateLeft32(t, j%32), 7)
		ss2 := ss1 ^ bits.RotateLeft32(A, 12)
		tt1 := ff + D + ss2 + w1[j]
		tt2 := gg + H + ss1 + w[j]
		D = C
		C = bits.RotateLeft32(B, 9)
		B = A
		A = tt1
		H = G
		G = bits.RotateLeft32(F, 19)
		F = E
		E = sm3p0(tt2)
	}
	return [8]uint32{v[0] ^ A, v[1] ^ B, v[2] ^ C, v[3] ^ D, v[4] ^ E, v[5] ^ F, v[6] ^ G, v[7] ^ H}
}

// SM3Stream is the same reference in incremental form (for streams too long to hold in
// memory twice); it shares sm3cf with SM3 and is checked against it by SelfTest.
type SM3Stream struct {
	v   [8]uint32
	buf []byte
	n   uint64
}

func NewSM3Stream() *SM3Stream {
	return &SM3Stream{v: [8]uint32{0x7380166f, 0x4914b2b9, 0x172442d7, 0xda8a0600, 0xa96f30bc, 0x163138aa, 0xe38dee4d, 0xb0fb0e4e}}
}

func (s *SM3Stream) Write(p []byte) {
	s.n += uint64(len(p))
	s.buf = append(s.buf, p...)
	off := 0
	for len(s.buf)-off >= 64 {
		s.v = sm3cf(s.v, s.buf[off:off+64])
		off += 64
	}
	s.buf = append(s.buf[:0], s.buf[off:]...)
}

// Sum returns the digest of everything written so far without disturbing the stream.
func (s *SM3Stream) Sum() [32]byte {
	l := s.n * 8
	m := append([]byte{}, s.buf...)
	m = append(m, 0x80)
	for len(m)%64 != 56 {
		m = append(m, 0)
	}
	for i := 7; i >= 0; i-- {
		m = append(m, byte(l>>(8*uint(i))))
	}
	v := s.v
	for off := 0; off < len(m); off += 64 {
		v = sm3cf(v, m[off:off+64])
	}
	var out [32]byte
	for i, x := range v {
		out[4*i], out[4*i+1], out[4*i+2], out[4*i+3] = byte(x>>24), byte(x>>16), byte(x>>8), byte(x)
	}
	return out
}

package ref

import (
	"errors"
	"io"
	"math/big"
)

// SM2 reference: GM/T 0003.2-2012 signature scheme over the GM/T 0003.5 curve, with
// affine arithmetic on math/big (explicit lambda formulas, explicit point at infinity).

func hexInt(s string) *big.Int {
	v, ok := new(big.Int).SetString(s, 16)
	if !ok {
		panic("bad hex")
	}
	return v
}

var (
	SM2P  = hexInt("FFFFFFFEFFFFFFFFFFFFFFFFFFFFFFFFFFFFFFFF00000000FFFFFFFFFFFFFFFF")
	SM2A  = hexInt("FFFFFFFEFFFFFFFFFFFFFFFFFFFFFFFFFFFFFFFF00000000FFFFFFFFFFFFFFFC")
	SM2B  = hexInt("28E9FA9E9D9F5E344D5A9E4BCF6509A7F39789F515AB8F92DDBCBD414D940E93")
	SM2N  = hexInt("FFFFFFFEFFFFFFFFFFFFFFFFFFFFFFFF7203DF6B21C6052B53BBF40939D54123")
	SM2Gx = hexInt("32C4AE2C1F1981195F9904466A39C9948FE30BBFF2660BE1715A4589334C74C7")
	SM2Gy = hexInt("BC3736A2F4F6779C59BDCEE36B692153D0A9877CC62A474002DF32E52139F0A0")
	big1  = big.NewInt(1)
	big2  = big.NewInt(2)
	big3  = big.NewInt(3)
)

// Pt is an affine point; Inf marks the point at infinity.
type Pt struct {
	X, Y *big.Int
	Inf  bool
}

func G() Pt        { return Pt{X: new(big.Int).Set(SM2Gx), Y: new(big.Int).Set(SM2Gy)} }
func Infinity() Pt { return Pt{Inf: true} }

func modp(x *big.Int) *big.Int { return x.Mod(x, SM2P) }

// OnCurve: y^2 = x^3 + a x + b (mod p) with 0 <= x,y < p.
func OnCurve(x, y *big.Int) bool {
	if x.Sign() < 0 || y.Sign() < 0 || x.Cmp(SM2P) >= 0 || y.Cmp(SM2P) >= 0 {
		return false
	}
	l := new(big.Int).Mul(y, y)
	modp(l)
	r := new(big.Int).Mul(x, x)
	r.Mul(r, x)
	ax := new(big.Int).Mul(SM2A, x)
	r.Add(r, ax)
	r.Add(r, SM2B)
	modp(r)
	return l.Cmp(r) == 0
}

func Add(p, q Pt) Pt {
	if p.Inf {
		return q
	}
	if q.Inf {
		return p
	}
	var lam *big.Int
	if p.X.Cmp(q.X) == 0 {
		s := new(big.Int).Add(p.Y, q.Y)
		modp(s)
		if s.Sign() == 0 {
			return Infinity()
		}
		// doubling: lambda = (3x^2 + a) / (2y)
		num := new(big.Int).Mul(p.X, p.X)
		num.Mul(num, big3)
		num.Add(num, SM2A)
		den := new(big.Int).Mul(p.Y, big2)
		modp(den)
		den.ModInverse(den, SM2P)
		lam = modp(num.Mul(num, den))
	} else {
		num := new(big.Int).Sub(q.Y, p.Y)
		den := new(big.Int).Sub(q.X, p.X)
		modp(den)
		den.ModInverse(den, SM2P)
		lam = modp(num.Mul(num, den))
	}
	x3 := new(big.Int).Mul(lam, lam)
	x3.Sub(x3, p.X)
	x3.Sub(x3, q.X)
	modp(x3)
	y3 := new(big.Int).Sub(p.X, x3)
	y3.Mul(y3, lam)
	y3.Sub(y3, p.Y)
	modp(y3)
	return Pt{X: x3, Y: y3}
}

func Neg(p Pt) Pt {
	if p.Inf {
		return p
	}
	y := new(big.Int).Sub(SM2P, p.Y)
	modp(y)
	return Pt{X: new(big.Int).Set(p.X), Y: y}
}

// Mul returns [k]P by left-to-right double-and-add, k >= 0.
func Mul(k *big.Int, p Pt) Pt {
	r := Infinity()
	for i := k.BitLen() - 1; i >= 0; i-- {
		r = Add(r, r)
		if k.Bit(i) == 1 {
			r = Add(r, p)
		}
	}
	return r
}

func MulG(k *big.Int) Pt { return Mul(k, G()) }

// Pad32 encodes v < 2^256 as 32 big-endian bytes.
func Pad32(v *big.Int) []byte {
	b := v.Bytes()
	out := make([]byte, 32)
	copy(out[32-len(b):], b)
	return out
}

func Int(b []byte) *big.Int { return new(big.Int).SetBytes(b) }

// KeyValid: d in [1, n-2].
func KeyValid(d *big.Int) bool {
	nm1 := new(big.Int).Sub(SM2N, big1)
	return d.Sign() > 0 && d.Cmp(nm1) < 0
}

var ErrKey = errors.New("sm2ref: private key outside [1,n-2]")

// Reject reasons, reported so that workloads can probe that every rule fired.
const (
	RejNone  = ""
	RejKHigh = "k>=n"
	RejKZero = "k=0"
	RejR0    = "r=0"
	RejRK    = "r+k=n"
	RejS0    = "s=0"
)

// SignStep evaluates one nonce candidate: either a rejection reason or (r, s).
func SignStep(d, e, k *big.Int) (reason string, r, s *big.Int) {
	if k.Sign() == 0 {
		return RejKZero, nil, nil
	}
	if k.Cmp(SM2N) >= 0 {
		return RejKHigh, nil, nil
	}
	p1 := MulG(k)
	r = new(big.Int).Add(e, p1.X)
	r.Mod(r, SM2N)
	if r.Sign() == 0 {
		return RejR0, nil, nil
	}
	if new(big.Int).Add(r, k).Cmp(SM2N) == 0 {
		return RejRK, nil, nil
	}
	// s = (1+d)^-1 (k - r d) mod n
	inv := new(big.Int).Add(d, big1)
	inv.ModInverse(inv, SM2N)
	s = new(big.Int).Mul(r, d)
	s.Sub(k, s)
	s.Mul(s, inv)
	s.Mod(s, SM2N)
	if s.Sign() == 0 {
		return RejS0, nil, nil
	}
	return RejNone, r, s
}

// Sign follows A1-A7 of GM/T 0003.2 section 6.1 with nonces drawn from rnd in 32-byte
// big-endian units. It returns the signature, the bytes consumed from rnd and the list
// of rejection reasons met on the way.
func Sign(rnd io.Reader, dBytes, eBytes []byte) (r, s []byte, consumed int, rejects []string, err error) {
	d := Int(dBytes)
	if len(dBytes) > 32 || !KeyValid(d) {
		return nil, nil, 0, nil, ErrKey
	}
	e := Int(eBytes)
	var buf [32]byte
	for {
		if _, err = io.ReadFull(rnd, buf[:]); err != nil {
			return nil, nil, consumed, rejects, err
		}
		consumed += 32
		reason, ri, si := SignStep(d, e, Int(buf[:]))
		if reason != RejNone {
			rejects = append(rejects, reason)
			continue
		}
		return Pad32(ri), Pad32(si), consumed, rejects, nil
	}
}

// Verify follows B1-B7 of GM/T 0003.2 section 7.1 on byte strings: every value must be
// exactly 32 bytes; r,s in [1,n-1]; t != 0; public key canonical and on the curve;
// [s]G+[t]P finite; (e+x1) mod n == r.
func Verify(px, py, eBytes, rBytes, sBytes []byte) bool {
	return VerifyReason(px, py, eBytes, rBytes, sBytes) == "ok"
}

// VerifyReason returns "ok" or the first side condition of B1-B7 that fails.
func VerifyReason(px, py, eBytes, rBytes, sBytes []byte) string {
	if len(px) != 32 || len(py) != 32 || len(eBytes) != 32 || len(rBytes) != 32 || len(sBytes) != 32 {
		return "length"
	}
	r, s := Int(rBytes), Int(sBytes)
	if r.Sign() <= 0 || r.Cmp(SM2N) >= 0 {
		return "r-range"
	}
	if s.Sign() <= 0 || s.Cmp(SM2N) >= 0 {
		return "s-range"
	}
	t := new(big.Int).Add(r, s)
	t.Mod(t, SM2N)
	if t.Sign() == 0 {
		return "t=0"
	}
	x, y := Int(px), Int(py)
	if x.Cmp(SM2P) >= 0 || y.Cmp(SM2P) >= 0 {
		return "pub-noncanonical"
	}
	if !OnCurve(x, y) {
		return "pub-offcurve"
	}
	pt := Add(MulG(s), Mul(t, Pt{X: x, Y: y}))
	if pt.Inf {
		return "infinity"
	}
	R := new(big.Int).Add(Int(eBytes), pt.X)
	R.Mod(R, SM2N)
	if R.Cmp(r) != 0 {
		return "mismatch"
	}
	return "ok"
}

// ZA = SM3(ENTL || ID || a || b || xG || yG || xA || yA); ok=false if the id is too
// long for the 16-bit ENTL (bit length >= 65536).
func ZA(id, px, py []byte) (za [32]byte, ok bool) {
	entl := len(id) * 8
	if entl >= 1<<16 {
		return za, false
	}
	m := []byte{byte(entl >> 8), byte(entl)}
	m = append(m, id...)
	m = append(m, Pad32(SM2A)...)
	m = append(m, Pad32(SM2B)...)
	m = append(m, Pad32(SM2Gx)...)
	m = append(m, Pad32(SM2Gy)...)
	m = append(m, px...)
	m = append(m, py...)
	return SM3(m), true
}

// E = SM3(ZA || M).
func E(za, msg []byte) [32]byte {
	m := append(append([]byte{}, za...), msg...)
	return SM3(m)
}

// GenerateKey: first 32-byte candidate in [1,n-2]; returns d, [d]G, bytes consumed and
// the number of rejected candidates.
func GenerateKey(rnd io.Reader) (d, x, y []byte, consumed, rejected int, err error) {
	var buf [32]byte
	for {
		if _, err = io.ReadFull(rnd, buf[:]); err != nil {
			return nil, nil, nil, consumed, rejected, err
		}
		consumed += 32
		k := Int(buf[:])
		if !KeyValid(k) {
			rejected++
			continue
		}
		p := MulG(k)
		return append([]byte{}, buf[:]...), Pad32(p.X), Pad32(p.Y), consumed, rejected, nil
	}
}

package ref

import (
	"bytes"
	"crypto/elliptic"
	"encoding/hex"
	"fmt"
	"math/big"
)

func unhex(s string) []byte {
	b, err := hex.DecodeString(s)
	if err != nil {
		panic(err)
	}
	return b
}

// SelfTest runs the published anchors. A reference model that fails them must not be
// used as an oracle: callers exit 2.
func SelfTest() error {
	// GB/T 32905 A.1, A.2
	if d := SM3([]byte("abc")); hex.EncodeToString(d[:]) != "66c7f0f462eeedd9d1f2d46bdc10e4e24167c4875cf2f7a2297da02b8f4ba8e0" {
		return fmt.Errorf("sm3ref: abc vector mismatch: %x", d)
	}
	if d := SM3(bytes.Repeat([]byte("abcd"), 16)); hex.EncodeToString(d[:]) != "debe9ff92275b8a138604889c18e5a4d6fdb70e5387e5765293dcba39c0c5732" {
		return fmt.Errorf("sm3ref: abcd*16 vector mismatch: %x", d)
	}
	st := NewSM3Stream()
	var all []byte
	for i := 0; i < 300; i++ {
		chunk := bytes.Repeat([]byte{byte(i)}, i%97)
		st.Write(chunk)
		all = append(all, chunk...)
		if i%50 == 49 && st.Sum() != SM3(all) {
			return fmt.Errorf("sm3ref: streaming form disagrees with the one-shot form after %d bytes", len(all))
		}
	}
	// GM/T 0003.5 signature example on the recommended curve.
	d := unhex("3945208F7B2144B13F36E38AC6D39F95889393692860B51A42FB81EF4DF7C5B8")
	k := unhex("59276E27D506861A16680F3AD9C02DCCEF3CC1FA3CDBE4CE6D54B80DEAC1BC21")
	px := unhex("09F9DF311E5421A150DD7D161E4BC5C672179FAD1833FC076BB08FF356F35020")
	py := unhex("CCEA490CE26775A52DC6EA718CC1AA600AED05FBF35E084A6632F6072DA9AD13")
	za, ok := ZA([]byte("1234567812345678"), px, py)
	if !ok || hex.EncodeToString(za[:]) != "b2e14c5c79c6df5b85f4fe7ed8db7a262b9da7e07ccb0ea9f4747b8ccda8a4f3" {
		return fmt.Errorf("sm2ref: ZA vector mismatch: %x", za)
	}
	e := E(za[:], []byte("message digest"))
	if hex.EncodeToString(e[:]) != "f0b43e94ba45accaace692ed534382eb17e6ab5a19ce7b31f4486fdfc0d28640" {
		return fmt.Errorf("sm2ref: e vector mismatch: %x", e)
	}
	pub := MulG(Int(d))
	if !bytes.Equal(Pad32(pub.X), px) || !bytes.Equal(Pad32(pub.Y), py) {
		return fmt.Errorf("sm2ref: public key vector mismatch")
	}
	r, s, consumed, _, err := Sign(bytes.NewReader(k), d, e[:])
	if err != nil || consumed != 32 ||
		hex.EncodeToString(r) != "f5a03b0648d2c4630eeac513e1bb81a15944da3827d5b74143ac7eaceee720b3" ||
		hex.EncodeToString(s) != "b1b6aa29df212fd8763182bc0d421ca1bb9038fd1f7f42d4840b69c485bbc1aa" {
		return fmt.Errorf("sm2ref: signature vector mismatch: %x %x %v", r, s, err)
	}
	if !Verify(px, py, e[:], r, s) {
		return fmt.Errorf("sm2ref: verify rejects the standard's signature")
	}
	r[31] ^= 1
	if Verify(px, py, e[:], r, s) {
		return fmt.Errorf("sm2ref: verify accepts a modified signature")
	}
	// Cross-check the affine group law against crypto/elliptic's generic Jacobian code
	// (valid because a = p-3).
	if new(big.Int).Add(SM2A, big3).Cmp(SM2P) != 0 {
		return fmt.Errorf("sm2ref: a != -3")
	}
	cp := &elliptic.CurveParams{P: SM2P, N: SM2N, B: SM2B, Gx: SM2Gx, Gy: SM2Gy, BitSize: 256, Name: "sm2ref"}
	x := new(big.Int).Set(SM2Gx)
	for i := 0; i < 8; i++ {
		kk := SM3(Pad32(x))
		ki := Int(kk[:])
		ki.Mod(ki, SM2N)
		gx, gy := cp.ScalarBaseMult(Pad32(ki))
		p := MulG(ki)
		if p.Inf || p.X.Cmp(gx) != 0 || p.Y.Cmp(gy) != 0 {
			return fmt.Errorf("sm2ref: group law disagrees with crypto/elliptic generic code at k=%x", ki)
		}
		if !OnCurve(p.X, p.Y) {
			return fmt.Errorf("sm2ref: [k]G off curve")
		}
		x = p.X
	}
	// order of G
	if !MulG(SM2N).Inf {
		return fmt.Errorf("sm2ref: [n]G is not infinity")
	}
	return nil
}

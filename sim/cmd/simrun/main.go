// simrun is the simulation worker. It executes a range of run indices of one property
// and writes a JSON summary; or shrinks / replays one script. It never decides the exit
// status of a check: the driver (bin/check) does.
package main

import (
	"encoding/json"
	"flag"
	"fmt"
	"os"
	"runtime/debug"
	"sort"
	"strconv"
	"time"

	"verif/sim/core"
	"verif/sim/props"
	"verif/sim/ref"
)

type violationOut struct {
	Run       int             `json:"run"`
	Signature string          `json:"signature"`
	Violation *core.Violation `json:"violation"`
	EventHash string          `json:"event_hash"`
	Script    core.Script     `json:"script"`
}

type summary struct {
	Prop          string            `json:"prop"`
	Seed          uint64            `json:"seed"`
	Tier          string            `json:"tier"`
	From          int               `json:"from"`
	Stride        int               `json:"stride"`
	Evaluations   int               `json:"evaluations"`
	Systematic    int               `json:"systematic_done"`
	Nontrivial    int               `json:"nontrivial"`
	Steps         int               `json:"steps"`
	Faults        map[string]int    `json:"faults"`
	Probes        map[string]int    `json:"probes"`
	Fingerprints  []uint64          `json:"fingerprints"`
	Interleavings []uint64          `json:"interleavings"`
	Samples       []json.RawMessage `json:"samples"`
	Violations    []violationOut    `json:"violations"`
	ViolationsN   int               `json:"violations_total"`
	SigCounts     map[string]int    `json:"signature_counts"`
	Unclaimed     map[string]int    `json:"unclaimed"`
	RollHash      string            `json:"roll_hash"`
}

type replayFile struct {
	Property  string          `json:"property"`
	Seed      uint64          `json:"seed"`
	Run       int             `json:"run"`
	Signature string          `json:"signature"`
	Script    json.RawMessage `json:"script"`
	Expect    struct {
		EventHash string `json:"event_hash"`
		Violation string `json:"violation"`
	} `json:"expect"`
	ShrinkExecs int `json:"shrink_execs,omitempty"`
	// Sequence, when set, replays a worker's history: runs from, from+stride, ... < to of
	// the given seed and tier in one process; the last one is the recorded run.
	Sequence *struct {
		Seed   uint64 `json:"seed"`
		From   int    `json:"from"`
		To     int    `json:"to"`
		Stride int    `json:"stride"`
		Tier   string `json:"tier"`
	} `json:"sequence,omitempty"`
}

func die(code int, f string, a ...interface{}) {
	fmt.Fprintf(os.Stderr, "simrun: "+f+"\n", a...)
	os.Exit(code)
}

func main() {
	if len(os.Args) == 3 && os.Args[1] == "-l3tracee" {
		props.L3TraceeMain(os.Args[2])
		return
	}
	if len(os.Args) == 3 && os.Args[1] == "-l3exp" {
		props.L3ExpMain(os.Args[2])
		return
	}
	core.PinMain() // seam S7: ordinary library calls all run on the main thread (see core/thread.go)
	prop := flag.String("prop", "", "property id")
	tier := flag.String("tier", "quick", "quick|thorough")
	seed := flag.Uint64("seed", 1, "VERIF_SEED")
	from := flag.Int("from", 0, "first run index")
	to := flag.Int("to", 0, "one past last run index")
	stride := flag.Int("stride", 1, "run indices from, from+stride, ...")
	out := flag.String("out", "", "summary output file")
	info := flag.Bool("info", false, "print plan and meta")
	shrink := flag.String("shrink", "", "replay file to minimise (in place unless -out)")
	replay := flag.String("replay", "", "replay file to execute")
	progress := flag.Bool("progress", false, "print every run index to stderr before executing it")
	samples := flag.Int("samples", 3, "scripts to include as samples")
	dump := flag.Int("dump", -1, "print the script of this run index and exit")
	candidates := flag.String("candidates", "", "print the shrink candidates of the script in this replay file as a JSON array")
	flag.Parse()

	debug.SetGCPercent(400)
	if err := ref.SelfTest(); err != nil {
		die(2, "reference model failed its anchors, refusing to act as oracle: %v", err)
	}
	p := core.Lookup(*prop)
	if p == nil {
		die(2, "unknown property %q (have %v)", *prop, core.Registered())
	}

	switch {
	case *dump >= 0:
		r := core.NewRand(core.Mix(*seed, p.ID(), uint64(*dump)))
		json.NewEncoder(os.Stdout).Encode(p.Generate(*dump, r, *tier))
		return
	case *candidates != "":
		_, sc := loadReplay(p, *candidates)
		cs := p.Shrinks(sc)
		if cs == nil {
			cs = []core.Script{}
		}
		json.NewEncoder(os.Stdout).Encode(cs)
		return
	case *info:
		json.NewEncoder(os.Stdout).Encode(map[string]interface{}{"plan": p.Plan(*tier), "meta": p.Meta()})
		return
	case *replay != "":
		doReplay(p, *replay)
		return
	case *shrink != "":
		doShrink(p, *shrink, *out)
		return
	}

	plan := p.Plan(*tier)
	if *stride < 1 {
		*stride = 1
	}
	s := summary{Prop: p.ID(), Seed: *seed, Tier: *tier, From: *from, Stride: *stride, Faults: map[string]int{}, Probes: map[string]int{},
		SigCounts: map[string]int{}, Unclaimed: map[string]int{}}
	fps := map[uint64]struct{}{}
	ils := map[uint64]struct{}{}
	roll := &core.Log{}
	perSig := map[string]int{}
	if *stride < 1 {
		*stride = 1
	}
	for i := *from; i < *to; i += *stride {
		if *progress {
			fmt.Fprintf(os.Stderr, "RUN %d\n", i)
		}
		r := core.NewRand(core.Mix(*seed, p.ID(), uint64(i)))
		sc := p.Generate(i, r, *tier)
		res := p.Execute(sc, false)
		s.Evaluations++
		if i < plan.Systematic {
			s.Systematic++
		}
		s.Steps += res.Steps
		roll.Add("%d:%s", i, res.EventHash)
		for k, v := range res.Faults {
			s.Faults[k] += v
		}
		for k, v := range res.Probes {
			s.Probes[k] += v
		}
		for _, u := range res.Unclaimed {
			s.Unclaimed[u]++
		}
		if res.Nontrivial {
			s.Nontrivial++
			fps[core.Hash64(res.Fingerprint)] = struct{}{}
		}
		if res.Interleave != "" {
			ils[core.Hash64(res.Interleave)] = struct{}{}
		}
		if len(s.Samples) < *samples && (res.Nontrivial || i >= *to-*stride*(*samples)) {
			raw, _ := json.Marshal(sc)
			s.Samples = append(s.Samples, raw)
		}
		if res.Violation != nil {
			sig := res.Violation.Signature(p.ID())
			s.ViolationsN++
			s.SigCounts[sig]++
			if perSig[sig] < 2 && len(s.Violations) < 40 {
				perSig[sig]++
				s.Violations = append(s.Violations, violationOut{Run: i, Signature: sig, Violation: res.Violation, EventHash: res.EventHash, Script: sc})
			}
		}
	}
	for k := range fps {
		s.Fingerprints = append(s.Fingerprints, k)
	}
	sort.Slice(s.Fingerprints, func(a, b int) bool { return s.Fingerprints[a] < s.Fingerprints[b] })
	for k := range ils {
		s.Interleavings = append(s.Interleavings, k)
	}
	sort.Slice(s.Interleavings, func(a, b int) bool { return s.Interleavings[a] < s.Interleavings[b] })
	s.RollHash = roll.Hash()
	raw, err := json.Marshal(&s)
	if err != nil {
		die(2, "marshal: %v", err)
	}
	if *out == "" {
		os.Stdout.Write(raw)
		os.Stdout.Write([]byte("\n"))
		return
	}
	if err := os.WriteFile(*out, raw, 0o644); err != nil {
		die(2, "write: %v", err)
	}
}

func loadReplay(p core.Prop, path string) (*replayFile, core.Script) {
	raw, err := os.ReadFile(path)
	if err != nil {
		die(2, "read %s: %v", path, err)
	}
	var rf replayFile
	if err := json.Unmarshal(raw, &rf); err != nil {
		die(2, "parse %s: %v", path, err)
	}
	if rf.Property != p.ID() {
		die(2, "replay file is for %s, not %s", rf.Property, p.ID())
	}
	sc, err := p.Decode(rf.Script)
	if err != nil {
		die(2, "decode script: %v", err)
	}
	return &rf, sc
}

// doReplay executes the script and prints one JSON line with what happened.
// Exit 0: no violation; 1: violation (signature printed); the driver compares with expect.
func doReplay(p core.Prop, path string) {
	rf, sc := loadReplay(p, path)
	if q := rf.Sequence; q != nil {
		if q.Stride < 1 {
			q.Stride = 1
		}
		for i := q.From; i < q.To-q.Stride; i += q.Stride {
			r := core.NewRand(core.Mix(q.Seed, p.ID(), uint64(i)))
			p.Execute(p.Generate(i, r, q.Tier), false)
		}
	}
	res := p.Execute(sc, true)
	o := map[string]interface{}{"event_hash": res.EventHash, "expect_event_hash": rf.Expect.EventHash,
		"expect_signature": rf.Signature, "log": res.LogLines}
	code := 0
	if res.Violation != nil {
		o["signature"] = res.Violation.Signature(p.ID())
		o["detail"] = res.Violation.Detail
		code = 1
	}
	json.NewEncoder(os.Stdout).Encode(o)
	os.Exit(code)
}

func doShrink(p core.Prop, path, out string) {
	if v, err := strconv.Atoi(os.Getenv("VERIF_SHRINK_SECONDS")); err == nil && v > 0 {
		core.ShrinkTime = time.Duration(v) * time.Second
	}
	rf, sc := loadReplay(p, path)
	res := p.Execute(sc, false)
	if res.Violation == nil || res.Violation.Signature(p.ID()) != rf.Signature {
		die(3, "violation does not reproduce before shrinking (got %v)", res.Violation)
	}
	min, execs := core.Shrink(p, sc, rf.Signature, 4000)
	raw, _ := json.Marshal(min)
	min2, err := p.Decode(raw)
	if err != nil {
		die(2, "decode minimised: %v", err)
	}
	res = p.Execute(min2, false)
	if res.Violation == nil || res.Violation.Signature(p.ID()) != rf.Signature {
		die(3, "minimised script does not reproduce")
	}
	rf.Script = raw
	rf.Expect.EventHash = res.EventHash
	rf.Expect.Violation = res.Violation.Detail
	rf.ShrinkExecs = execs
	o, _ := json.MarshalIndent(rf, "", " ")
	if out == "" {
		out = path
	}
	if err := os.WriteFile(out, o, 0o644); err != nil {
		die(2, "write: %v", err)
	}
}

package main

import (
	"strings"
	"testing"
)

const toy = `package p

import "sync"

type C struct {
	sync.Mutex
	rw   sync.RWMutex
	once sync.Once
	n    int
}

var global sync.Once
var gp *sync.Once = new(sync.Once)

func (c *C) Inc() int {
	c.Lock()
	c.n++
	c.Unlock()
	c.rw.RLock()
	defer c.rw.RUnlock()
	c.once.Do(func() { c.n += 100 })
	global.Do(c.init)
	gp.Do(func() {})
	return c.n
}

func (c *C) init() { c.n += 1000 }
`

func TestBlockingCallsAreRewritten(t *testing.T) {
	scanOnce("/x/p/p.go", []byte(toy))
	next := 1
	var sites []site
	out, _, err := instrument("/x/p/p.go", "p/p.go", []byte(toy), "example.com/m", true, &next, &sites)
	if err != nil {
		t.Fatal(err)
	}
	for _, want := range []string{
		"for !c.TryLock() { verifyield.Blocked(",
		"for !c.rw.TryRLock() { verifyield.Blocked(",
		"verifyield.OnceDo(&c.once, func() {",
		"verifyield.OnceDo(&global, c.init)",
		"verifyield.OnceDo(gp, func() {})",
		"c.Unlock()",
		"defer c.rw.RUnlock()",
	} {
		if !strings.Contains(string(out), want) {
			t.Errorf("instrumented source lacks %q:\n%s", want, out)
		}
	}
	rewriteLocks = false
	defer func() { rewriteLocks = true }()
	next = 1
	out, _, _ = instrument("/x/p/p.go", "p/p.go", []byte(toy), "example.com/m", true, &next, &sites)
	if strings.Contains(string(out), "TryLock") || strings.Contains(string(out), "OnceDo") {
		t.Errorf("-nolocks still rewrites:\n%s", out)
	}
}
